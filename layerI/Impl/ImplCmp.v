(* Layer I: shared part of the proofs for the comparison predicates of bid128_compare.rs (group G; logical path DVI).
   1. `cmp_res i x y st` is what the model (OpsCmp.m_cmp) prescribes for predicate number i as (result, status word);
      `cmp_res_thm` turns  i_f ... = cmp_res ...  into the published form of the theorems.
   2. `cmp_res_words`: the model read on the two words of each operand, as ONE case ladder `cmp_lad` over exactly the
      tests that the code performs after ImplLib.word_norm / ImplCommon.mask_tests (NaN, bitwise equal, infinity,
      zero / non-canonical, signs, comparison of the coefficients scaled to a common exponent).
   3. `mag_EQ`, `mag_GT`, `mag_LT`: the arithmetic that connects the model's comparison  cx*10^ex ?= cy*10^ey  with
      the comparison the code makes in each regime (equal exponents: cx ?= cy; ex > ey: cx*10^(ex-ey) ?= cy; ex < ey:
      cx ?= cy*10^(ey-ex)); the products are formed by the code through BID_TEN2K64/128 and the multi-word
      multiplications, which are exact (ImplMul0/ImplMul; `S192a`, `S192b`, `S256a` restate that with the table row).
   4. `cmp_open`, `cmp_walk`, `cmp_leaf`, `cmp_ok`: tactics that follow ANY of the generated case ladders (they never
      mention generated names): split on the tests in the order the code performs them (the model ladder shares the
      class / sign / zero atoms and simplifies in lockstep), open the multiplications with their specifications,
      close the leaves by computation or lia. Every routine of group G is proved by the same four-line script.
   Axiom-free (integers only). *)
From Coq Require Import ZArith Lia Bool List ZifyBool.
From Flocq Require Import Core.Zaux Core.Digits.
From DV Require Import Base Bid BidProofs Arith OpsArith OpsCmp TotalProofs.
From DVI Require Import ImplLib ImplGen ImplCommon ImplMul0 ImplMul ImplOrder.
Import ListNotations.
Open Scope Z_scope.

Ltac Zify.zify_post_hook ::= Z.div_mod_to_equations.

(* ---------- 1. the model's answer as (result, status) ---------- *)
Definition cmp_inv (i:Z) (dx dy:dec) : bool :=
  if pred_signaling i then is_nan dx || is_nan dy else is_snan dx || is_snan dy.
Definition cmp_res (i x y st : Z) : bool * Z :=
  (existsb (rel_eqb (cmp_dec (decode x) (decode y))) (pred_rels i),
   if cmp_inv i (decode x) (decode y) then Z.lor st 1 else st).

Lemma cmp_res_thm i x y st (v : bool * Z) (ok : bool) : ok = true -> v = cmp_res i x y st ->
  let '(r, st') := v in
  ok = true /\ exists fl, m_cmp x y i = [([b2z r], fl)] /\ st' = Z.lor st fl.
Proof.
  intros Hok ->. unfold cmp_res. split; [exact Hok|].
  exists (if cmp_inv i (decode x) (decode y) then F_INV else 0). split; [reflexivity|].
  destruct (cmp_inv i (decode x) (decode y)); [reflexivity|]. symmetry. apply Z.lor_0_r.
Qed.

Lemma cmp_res_thm0 i x y st (v : bool * Z) : v = cmp_res i x y st ->
  let '(r, st') := v in exists fl, m_cmp x y i = [([b2z r], fl)] /\ st' = Z.lor st fl.
Proof. intros H. pose proof (cmp_res_thm i x y st v true eq_refl H) as T. destruct v as [r st']. apply T. Qed.

(* ---------- 2. the model on words ---------- *)
Definition coefW (h l : Z) : Z := h * 18446744073709551616 + l.
(* "the coefficient field decodes to zero": large-coefficient form, or zero, or not below 10^34 *)
Definition ztest (G : bool) (h l : Z) : bool :=
  G || negb (0 <? coefW h l) || (10000000000000000000000000000000000 <=? coefW h l).

Definition rel_lad (beq sX NX IX ZX sY NY IY ZY : bool) (K : comparison) : rel :=
  if NX || NY then RUn
  else if beq then REq
  else if IX then (if IY then (if Bool.eqb sX sY then REq else if sX then RLt else RGt) else if sX then RLt else RGt)
  else if IY then (if sY then RGt else RLt)
  else if ZX then (if ZY then REq else if sY then RGt else RLt)
  else if ZY then (if sX then RLt else RGt)
  else if sX then (if sY then rel_of (CompOpp K) else RLt)
  else if sY then RGt else rel_of K.

Definition cmp_lad (i st : Z) (beq sX NX IX bX ZX sY NY IY bY ZY : bool) (K : comparison) : bool * Z :=
  (existsb (rel_eqb (rel_lad beq sX NX IX ZX sY NY IY ZY K)) (pred_rels i),
   if (if pred_signaling i then NX || NY else NX && bX || NY && bY) then Z.lor st 1 else st).

Lemma vkey_biased (c e : Z) : vkey c (e - 6176) = c * 10 ^ e.
Proof. unfold vkey. f_equal. f_equal. lia. Qed.

(* the decoded coefficient in terms of ztest *)
Lemma coef_ztest (G : bool) h l : 0 <= h -> 0 <= l ->
  (if G then 0 else if coefW h l <? T34 then coefW h l else 0) = if ztest G h l then 0 else coefW h l.
Proof.
  intros Hh Hl. unfold ztest, T34. assert (0 <= coefW h l) by (unfold coefW; lia).
  destruct G; cbn [orb]; [reflexivity|].
  destruct (Z.ltb_spec (coefW h l) 10000000000000000000000000000000000);
  destruct (Z.ltb_spec 0 (coefW h l)); destruct (Z.leb_spec 10000000000000000000000000000000000 (coefW h l));
  cbn [negb orb]; lia.
Qed.
Lemma ztest_false (G : bool) h l : ztest G h l = false -> G = false /\ 0 < coefW h l < 10000000000000000000000000000000000.
Proof. unfold ztest. intros H. destruct G; [discriminate|]. split; [reflexivity|]. cbn [orb] in H. lia. Qed.
Lemma ztest_false' (G : bool) h l : ztest G h l = false -> 0 < coefW h l < 10000000000000000000000000000000000.
Proof. intros H. apply ztest_false in H. apply H. Qed.

Lemma cmp_dec_fin sx cx ex sy cy ey : 0 <= cx -> 0 <= cy -> 0 <= ex -> 0 <= ey ->
  cmp_dec (Fin sx cx (ex - 6176)) (Fin sy cy (ey - 6176)) =
  if cx =? 0 then (if cy =? 0 then REq else if sy then RGt else RLt)
  else if cy =? 0 then (if sx then RLt else RGt)
  else if sx then (if sy then rel_of (CompOpp (cx * 10 ^ ex ?= cy * 10 ^ ey)) else RLt)
  else if sy then RGt else rel_of (cx * 10 ^ ex ?= cy * 10 ^ ey).
Proof.
  intros Hx Hy Hex Hey. cbn [cmp_dec]. unfold cmp_fin. rewrite cmp_mag_key by lia. rewrite !vkey_biased.
  destruct (cx =? 0), (cy =? 0), sx, sy; reflexivity.
Qed.

Lemma cmp_dec_words0 x0 x1 y0 y1 : in_u64 x0 -> in_u64 x1 -> in_u64 y0 -> in_u64 y1 ->
  cmp_dec (decode (pat x0 x1)) (decode (pat y0 y1)) =
  rel_lad false
    (9223372036854775808 <=? x1) (g5W x1 =? 31) (30 <=? g5W x1) (ztest (24 <=? g5W x1) (x1 mod 562949953421312) x0)
    (9223372036854775808 <=? y1) (g5W y1 =? 31) (30 <=? g5W y1) (ztest (24 <=? g5W y1) (y1 mod 562949953421312) y0)
    (coefW (x1 mod 562949953421312) x0 * 10 ^ ((x1 / 562949953421312) mod 16384) ?=
     coefW (y1 mod 562949953421312) y0 * 10 ^ ((y1 / 562949953421312) mod 16384)).
Proof.
  intros Hx0 Hx1 Hy0 Hy1. rewrite !decode_words by assumption. rewrite !decodeW_g5. red_lets.
  fold (coefW (x1 mod 562949953421312) x0). fold (coefW (y1 mod 562949953421312) y0).
  unfold in_u64 in *.
  assert (Hhx : 0 <= x1 mod 562949953421312) by (apply Z.mod_pos_bound; reflexivity).
  assert (Hhy : 0 <= y1 mod 562949953421312) by (apply Z.mod_pos_bound; reflexivity).
  rewrite !coef_ztest by lia.
  set (CX := coefW (x1 mod 562949953421312) x0). set (CY := coefW (y1 mod 562949953421312) y0).
  assert (HCX : 0 <= CX) by (unfold CX, coefW; lia). assert (HCY : 0 <= CY) by (unfold CY, coefW; lia).
  set (ZX := ztest (24 <=? g5W x1) (x1 mod 562949953421312) x0). set (ZY := ztest (24 <=? g5W y1) (y1 mod 562949953421312) y0).
  assert (FX : ZX = false -> bexpW x1 = (x1 / 562949953421312) mod 16384 /\ 0 < CX).
  { intros H. apply ztest_false in H. destruct H as [G H]. unfold bexpW. rewrite G. fold CX in H. split; [reflexivity|lia]. }
  assert (FY : ZY = false -> bexpW y1 = (y1 / 562949953421312) mod 16384 /\ 0 < CY).
  { intros H. apply ztest_false in H. destruct H as [G H]. unfold bexpW. rewrite G. fold CY in H. split; [reflexivity|lia]. }
  assert (Bx : 0 <= bexpW x1) by (unfold bexpW; destruct (24 <=? g5W x1); apply Z.mod_pos_bound; reflexivity).
  assert (By : 0 <= bexpW y1) by (unfold bexpW; destruct (24 <=? g5W y1); apply Z.mod_pos_bound; reflexivity).
  clearbody CX CY ZX ZY. unfold rel_lad.
  pose proof (g5W_range x1) as Rx. pose proof (g5W_range y1) as Ry.
  destruct (Z.eqb_spec (g5W x1) 31) as [NX|NX]; [reflexivity|].
  destruct (Z.eqb_spec (g5W y1) 31) as [NY|NY]; cbn [orb].
  { destruct (30 <=? g5W x1); reflexivity. }
  destruct (30 <=? g5W x1), (30 <=? g5W y1); try reflexivity.
  rewrite cmp_dec_fin by (try lia; destruct ZX, ZY; lia).
  destruct ZX, ZY; cbn [Z.eqb]; try reflexivity.
  - destruct (FY eq_refl) as [_ F]. destruct (Z.eqb_spec CY 0); [lia|reflexivity].
  - destruct (FX eq_refl) as [_ F]. destruct (Z.eqb_spec CX 0); [lia|reflexivity].
  - destruct (FX eq_refl) as [EX F]. destruct (FY eq_refl) as [EY F']. rewrite EX, EY.
    destruct (Z.eqb_spec CX 0); [lia|]. destruct (Z.eqb_spec CY 0); [lia|]. reflexivity.
Qed.

Lemma rel_lad_same sX NX IX ZX K : NX = false -> (ZX = false -> K = Eq) -> rel_lad false sX NX IX ZX sX NX IX ZX K = REq.
Proof.
  intros -> HK. unfold rel_lad. cbn [orb]. destruct IX; [destruct sX; reflexivity|].
  destruct ZX; [reflexivity|]. rewrite HK by reflexivity. destruct sX; reflexivity.
Qed.

Lemma rel_lad_beq beq sX NX IX ZX sY NY IY ZY K :
  (beq = true -> NX || NY = false -> rel_lad false sX NX IX ZX sY NY IY ZY K = REq) ->
  rel_lad false sX NX IX ZX sY NY IY ZY K = rel_lad beq sX NX IX ZX sY NY IY ZY K.
Proof.
  intros H. destruct beq; [|reflexivity]. unfold rel_lad at 2. destruct (NX || NY) eqn:E.
  - unfold rel_lad. rewrite E. reflexivity.
  - apply H; reflexivity.
Qed.

Theorem cmp_res_words i x0 x1 y0 y1 st : in_u64 x0 -> in_u64 x1 -> in_u64 y0 -> in_u64 y1 ->
  cmp_res i (pat x0 x1) (pat y0 y1) st =
  cmp_lad i st ((x0 =? y0) && (x1 =? y1))
    (9223372036854775808 <=? x1) (g5W x1 =? 31) (30 <=? g5W x1) (1 <=? (x1 / 144115188075855872) mod 2)
       (ztest (24 <=? g5W x1) (x1 mod 562949953421312) x0)
    (9223372036854775808 <=? y1) (g5W y1 =? 31) (30 <=? g5W y1) (1 <=? (y1 / 144115188075855872) mod 2)
       (ztest (24 <=? g5W y1) (y1 mod 562949953421312) y0)
    (coefW (x1 mod 562949953421312) x0 * 10 ^ ((x1 / 562949953421312) mod 16384) ?=
     coefW (y1 mod 562949953421312) y0 * 10 ^ ((y1 / 562949953421312) mod 16384)).
Proof.
  intros Hx0 Hx1 Hy0 Hy1. unfold cmp_res, cmp_lad. f_equal.
  - f_equal. f_equal. rewrite cmp_dec_words0 by assumption. apply rel_lad_beq. intros B N.
    assert (x0 = y0 /\ x1 = y1) as [<- <-] by lia.
    apply rel_lad_same; [destruct (g5W x1 =? 31); [discriminate|reflexivity]|]. intros _. apply Z.compare_refl.
  - unfold cmp_inv. rewrite !decode_words by assumption. rewrite !decodeW_g5. red_lets.
    destruct (g5W x1 =? 31), (g5W y1 =? 31), (30 <=? g5W x1), (30 <=? g5W y1); cbn [is_nan is_snan orb andb];
    destruct (pred_signaling i); try reflexivity;
    destruct (1 <=? (x1 / 144115188075855872) mod 2); destruct (1 <=? (y1 / 144115188075855872) mod 2); reflexivity.
Qed.

(* ---------- 3. scaled comparison: facts for lia ----------
   UX = CX*10^ex, UY = CY*10^ey are never formed by the code; it compares MX = CX*10^(ex-ey) with CY (ex > ey),
   CX with MY = CY*10^(ey-ex) (ex < ey), or CX with CY (ex = ey). The three regimes are kept as folded hypotheses
   (invisible to lia until a leaf selects the one that its path conditions establish). *)
Definition mag_EQ (CX CY ex ey UX UY : Z) : Prop := ex = ey -> (UX ?= UY) = (CX ?= CY).
Definition mag_GT (CX CY ex ey UX UY MX : Z) : Prop :=
  ey < ex -> (UX ?= UY) = (MX ?= CY) /\ 10 * CX <= MX /\ (33 < ex - ey -> 10000000000000000000000000000000000 * CX <= MX).
Definition mag_LT (CX CY ex ey UX UY MY : Z) : Prop :=
  ex < ey -> (UX ?= UY) = (CX ?= MY) /\ 10 * CY <= MY /\ (33 < ey - ex -> 10000000000000000000000000000000000 * CY <= MY).

Lemma pow10_ge_10 d : 0 < d -> 10 <= 10 ^ d.
Proof. intros H. change 10 with (10 ^ 1) at 1. apply Z.pow_le_mono_r; lia. Qed.
Lemma mag_EQ_intro CX CY ex ey : 0 <= ex -> mag_EQ CX CY ex ey (CX * 10 ^ ex) (CY * 10 ^ ey).
Proof. intros He <-. symmetry. apply Zmult_compare_compat_r. apply Z.lt_gt, pow10_pos. exact He. Qed.
Lemma mag_GT_intro CX CY ex ey : 0 <= CX -> 0 <= ey -> mag_GT CX CY ex ey (CX * 10 ^ ex) (CY * 10 ^ ey) (CX * 10 ^ (ex - ey)).
Proof.
  intros HX He L. split; [apply cmp_scale_l; lia|].
  split; [pose proof (pow10_ge_10 (ex - ey) ltac:(lia)); nia|].
  intros H. pose proof (pow10_ge_34 (ex - ey) H). nia.
Qed.
Lemma mag_LT_intro CX CY ex ey : 0 <= CY -> 0 <= ex -> mag_LT CX CY ex ey (CX * 10 ^ ex) (CY * 10 ^ ey) (CY * 10 ^ (ey - ex)).
Proof.
  intros HY He L. split; [apply cmp_scale_r; lia|].
  split; [pose proof (pow10_ge_10 (ey - ex) ltac:(lia)); nia|].
  intros H. pose proof (pow10_ge_34 (ey - ex) H). nia.
Qed.

(* ---------- multiplications by table rows, with the product written coefW .. * 10^d ---------- *)
Lemma S_mul_64x128_to192 A B0 B1 : in_u64 A -> in_u64 B0 -> in_u64 B1 ->
  let '(q0, q1, q2) := i___mul_64x128_to192 A B0 B1 in
  in_u64 q0 /\ in_u64 q1 /\ in_u64 q2 /\
  q2 * 340282366920938463463374607431768211456 + q1 * 18446744073709551616 + q0 = A * (B1 * 18446744073709551616 + B0).
Proof.
  intros HA H0 H1. unfold i___mul_64x128_to192. cbv beta iota zeta.
  pose proof (S_mul_64x64_to_128 A B1 HA H1) as S1. destruct (i___mul_64x64_to_128 A B1) as [h0 h1].
  pose proof (S_mul_64x64_to_128 A B0 HA H0) as S0. destruct (i___mul_64x64_to_128 A B0) as [l0 l1].
  destruct S1 as (R1 & R2 & E1). destruct S0 as (R3 & R4 & E0).
  assert (Bd : A * B1 <= 18446744073709551615 * 18446744073709551615) by (unfold in_u64 in *; apply Z.mul_le_mono_nonneg; lia).
  assert (Hs : h1 * 18446744073709551616 + h0 + l1 < 340282366920938463463374607431768211456) by (unfold in_u64 in *; lia).
  pose proof (S_add_128_64 h0 h1 l1 R1 R2 R4 Hs) as S2. destruct (i___add_128_64 h0 h1 l1) as [m0 m1].
  destruct S2 as (R5 & R6 & E2). unfold in_u64 in *. repeat split; lia.
Qed.

Lemma pow10_u64 d : 0 <= d < 20 -> in_u64 (10 ^ d).
Proof.
  intros H. unfold in_u64. split; [apply Z.pow_nonneg; lia|].
  apply Z.le_lt_trans with (10 ^ 19); [apply Z.pow_le_mono_r; lia|]. vm_compute. reflexivity.
Qed.

Lemma S192a d b0 b1 : 0 <= d < 20 -> in_u64 b0 -> in_u64 b1 ->
  let '(q0, q1, q2) := i___mul_64x128_to192 (nth (Z.to_nat d) T_BID_TEN2K64 0) b0 b1 in
  in_u64 q0 /\ in_u64 q1 /\ in_u64 q2 /\
  q2 * 340282366920938463463374607431768211456 + q1 * 18446744073709551616 + q0 = coefW b1 b0 * 10 ^ d.
Proof.
  intros Hd H0 H1. rewrite (ten2k64_row d Hd). pose proof (S_mul_64x128_to192 (10 ^ d) b0 b1 (pow10_u64 d Hd) H0 H1) as S.
  destruct (i___mul_64x128_to192 (10 ^ d) b0 b1) as [[q0 q1] q2]. unfold coefW. rewrite (Z.mul_comm _ (10 ^ d)). exact S.
Qed.
Lemma S192b d b0 b1 : 0 <= d < 20 -> in_u64 b0 -> in_u64 b1 ->
  let '(q0, q1, q2) := i___mul_64x128_to_192 (nth (Z.to_nat d) T_BID_TEN2K64 0) b0 b1 in
  in_u64 q0 /\ in_u64 q1 /\ in_u64 q2 /\
  q2 * 340282366920938463463374607431768211456 + q1 * 18446744073709551616 + q0 = coefW b1 b0 * 10 ^ d.
Proof.
  intros Hd H0 H1. rewrite (ten2k64_row d Hd). pose proof (S_mul_64x128_to_192 (10 ^ d) b0 b1 (pow10_u64 d Hd) H0 H1) as S.
  destruct (i___mul_64x128_to_192 (10 ^ d) b0 b1) as [[q0 q1] q2]. unfold coefW. rewrite (Z.mul_comm _ (10 ^ d)). exact S.
Qed.
Lemma S256a i a0 a1 : 0 <= i < 19 -> in_u64 a0 -> in_u64 a1 ->
  let '(p0, p1, p2, p3) := i___mul_128x128_to_256 a0 a1 (nth (Z.to_nat i) T_BID_TEN2K128_w0 0) (nth (Z.to_nat i) T_BID_TEN2K128_w1 0) in
  in_u64 p0 /\ in_u64 p1 /\ in_u64 p2 /\ in_u64 p3 /\
  ((p3 * 18446744073709551616 + p2) * 18446744073709551616 + p1) * 18446744073709551616 + p0 = coefW a1 a0 * 10 ^ (i + 20).
Proof.
  intros Hi H0 H1. destruct (ten2k128_row i Hi) as (T0 & T1 & TE).
  pose proof (S_mul_128x128_to_256 a0 a1 _ _ H0 H1 T0 T1) as S.
  destruct (i___mul_128x128_to_256 a0 a1 _ _) as [[[p0 p1] p2] p3]. rewrite TE in S. exact S.
Qed.

(* (x ^ y) & MASK_SIGN == MASK_SIGN after word_norm *)
Lemma test_xor80 x y : in_u64 x -> in_u64 y ->
  ((Z.lxor x y / 9223372036854775808) mod 2 * 9223372036854775808 =? 9223372036854775808) =
  xorb (9223372036854775808 <=? x) (9223372036854775808 <=? y).
Proof.
  unfold in_u64. intros Hx Hy.
  rewrite <- (shiftr_lit (Z.lxor x y) 63 9223372036854775808) by (try reflexivity; lia).
  rewrite Z.shiftr_lxor. rewrite !(shiftr_lit _ 63 9223372036854775808) by (try reflexivity; lia).
  assert (Ax : x / 9223372036854775808 = if 9223372036854775808 <=? x then 1 else 0) by (destruct (Z.leb_spec 9223372036854775808 x); lia).
  assert (Ay : y / 9223372036854775808 = if 9223372036854775808 <=? y then 1 else 0) by (destruct (Z.leb_spec 9223372036854775808 y); lia).
  rewrite Ax, Ay. destruct (9223372036854775808 <=? x), (9223372036854775808 <=? y); reflexivity.
Qed.

Lemma if_tf (c : bool) : (if c then true else false) = c.
Proof. destruct c; reflexivity. Qed.
Lemma pair_eq' (A B : Type) (a a' : A) (b b' : B) : a = a' -> b = b' -> (a, b) = (a', b').
Proof. intros -> ->. reflexivity. Qed.

(* ---------- 4. the walker ---------- *)
Ltac unfold_helpers_cmp := unfold i_d128_Default_default, i_d128_new.

(* leftmost atomic test inside a boolean expression *)
Ltac bool_atom c :=
  lazymatch c with
  | andb ?a _ => bool_atom a
  | orb ?a _ => bool_atom a
  | negb ?a => bool_atom a
  | xorb ?a _ => bool_atom a
  | Bool.eqb ?a _ => bool_atom a
  | (if ?a then _ else _) => bool_atom a
  | _ => c
  end.

(* tests on the class / sign / zero atoms (boolean variables, or tests that read the high words x1, y1 directly), which the
   model ladder shares, are split atom by atom; all other conditions (comparisons of exponents, coefficient words,
   product words) are split as a whole, their equation is kept for the leaves *)
Ltac cmp_if_step x1 y1 :=
  match goal with
  | |- context [if ?c then _ else _] =>
      let a := bool_atom c in
      let E := fresh "E" in
      first [ is_var a; destruct a eqn:E
            | lazymatch a with context [x1] => idtac | context [y1] => idtac end; destruct a eqn:E
            | destruct c eqn:E ];
      cbn [andb orb negb xorb Bool.eqb]
  end.

(* lia on ranges and path conditions only *)
Ltac small_lia :=
  repeat match goal with
  | H : _ = false -> _ |- _ => clear H
  | H : _ = _ -> _ = _ -> _ |- _ => clear H
  | H : _ = coefW _ _ * _ |- _ => clear H
  | H : context [g5W _] |- _ => clear H
  end; lia.

(* replace the product  coefW h l * 10 ^ e  in SM by the variable M that stands for it (hypothesis M = coefW h l * 10 ^ e') *)
Ltac fold_prod SM :=
  match type of SM with context [coefW ?b ?a * 10 ^ ?e] =>
    match goal with H : ?M = coefW b a * 10 ^ ?e' |- _ =>
      replace (coefW b a * 10 ^ e) with M in SM by (rewrite H; apply (f_equal (fun t => coefW b a * 10 ^ t)); small_lia)
    end
  end.

Ltac cmp_unwrap_step :=
  match goal with
  | |- context [nth (Z.to_nat (wrap_usize ?e)) _ 0] => rewrite (wrap_usize_id e) by (unfold in_u64; small_lia)
  end.

Ltac cmp_mul_step :=
  match goal with
  | |- context [i___mul_64x128_to192 (nth (Z.to_nat ?d) T_BID_TEN2K64 0) ?b0 ?b1] =>
      let SM := fresh "SM" in
      pose proof (S192a d b0 b1 ltac:(small_lia) ltac:(unfold in_u64; small_lia) ltac:(unfold in_u64; small_lia)) as SM;
      destruct (i___mul_64x128_to192 (nth (Z.to_nat d) T_BID_TEN2K64 0) b0 b1) as [[? ?] ?];
      fold_prod SM; unfold in_u64 in SM; destruct SM as (? & ? & ? & ?)
  | |- context [i___mul_64x128_to_192 (nth (Z.to_nat ?d) T_BID_TEN2K64 0) ?b0 ?b1] =>
      let SM := fresh "SM" in
      pose proof (S192b d b0 b1 ltac:(small_lia) ltac:(unfold in_u64; small_lia) ltac:(unfold in_u64; small_lia)) as SM;
      destruct (i___mul_64x128_to_192 (nth (Z.to_nat d) T_BID_TEN2K64 0) b0 b1) as [[? ?] ?];
      fold_prod SM; unfold in_u64 in SM; destruct SM as (? & ? & ? & ?)
  | |- context [i___mul_128x128_to_256 ?a0 ?a1 (nth (Z.to_nat ?i) T_BID_TEN2K128_w0 0) (nth (Z.to_nat ?i) T_BID_TEN2K128_w1 0)] =>
      let SM := fresh "SM" in
      pose proof (S256a i a0 a1 ltac:(small_lia) ltac:(unfold in_u64; small_lia) ltac:(unfold in_u64; small_lia)) as SM;
      destruct (i___mul_128x128_to_256 a0 a1 (nth (Z.to_nat i) T_BID_TEN2K128_w0 0) (nth (Z.to_nat i) T_BID_TEN2K128_w1 0)) as [[[? ?] ?] ?];
      fold_prod SM; unfold in_u64 in SM; destruct SM as (? & ? & ? & ? & ?)
  end; cbv beta iota.

Ltac cmp_walk x1 y1 := repeat first [ cmp_if_step x1 y1 | cmp_mul_step | cmp_unwrap_step ].

(* a leaf: both sides are if-free. Class leaves compute; magnitude leaves select the regime that the path establishes,
   rewrite the model's comparison into the one the code made, and finish with lia *)
Ltac mag_regime :=
  match goal with
  | H : mag_EQ _ _ ?ex ?ey _ _ |- _ =>
      let R := fresh "R" in assert (R : ex = ey) by small_lia; rewrite (H R)
  | H : mag_GT _ _ ?ex ?ey _ _ _ |- _ =>
      let R := fresh "R" in assert (R : ey < ex) by small_lia;
      let K := fresh "K" in let B1 := fresh "B" in let B2 := fresh "B" in destruct (H R) as (K & B1 & B2); rewrite K
  | H : mag_LT _ _ ?ex ?ey _ _ _ |- _ =>
      let R := fresh "R" in assert (R : ex < ey) by small_lia;
      let K := fresh "K" in let B1 := fresh "B" in let B2 := fresh "B" in destruct (H R) as (K & B1 & B2); rewrite K
  end.
Ltac cmp_leaf :=
  cbn [rel_of CompOpp existsb rel_eqb orb andb negb xorb];
  first [ reflexivity
        | repeat match goal with H : ?a = ?a -> _ |- _ => specialize (H eq_refl) end;
          try mag_regime;
          repeat match goal with
          | H : context [g5W _] |- _ => clear H
          | H : _ = coefW _ _ * _ ^ _ |- _ => clear H
          end;
          try match goal with |- context [?u ?= ?v] => destruct (Z.compare_spec u v) end;
          cbn [rel_of CompOpp existsb rel_eqb orb andb negb xorb];
          (apply pair_eq'; [ lia | reflexivity ]) ].

(* the code's zero test (any boolean expression c in `if c then true else false` mentioning l =? 0) is ztest *)
Ltac fold_ztest G h l :=
  repeat match goal with |- context [if ?c then true else false] =>
    lazymatch c with context [l =? 0] => idtac end;
    replace c with (ztest G h l) by (unfold ztest, coefW; lia)
  end.

(* context for the walk: names for the fields, their ranges, the facts of section 3 *)
Ltac cmp_ctx x0 x1 y0 y1 :=
  unfold in_u64, in_u32 in *;
  set (hx := x1 mod 562949953421312) in *; set (hy := y1 mod 562949953421312) in *;
  set (ex := (x1 / 562949953421312) mod 16384) in *; set (ey := (y1 / 562949953421312) mod 16384) in *;
  set (sX := 9223372036854775808 <=? x1) in *; set (sY := 9223372036854775808 <=? y1) in *;
  assert (Hhx : 0 <= hx < 562949953421312) by (apply Z.mod_pos_bound; reflexivity);
  assert (Hhy : 0 <= hy < 562949953421312) by (apply Z.mod_pos_bound; reflexivity);
  assert (Hex : 0 <= ex < 16384) by (apply Z.mod_pos_bound; reflexivity);
  assert (Hey : 0 <= ey < 16384) by (apply Z.mod_pos_bound; reflexivity);
  assert (NEQ : sX = sY -> ex = ey -> hx = hy -> x1 = y1) by (unfold sX, sY, ex, ey, hx, hy; lia);
  clearbody hx hy ex ey sX sY;
  wrap_ids lia;
  fold_ztest (24 <=? g5W x1) hx x0; fold_ztest (24 <=? g5W y1) hy y0; rewrite ?if_tf;
  pose proof (ztest_false' (24 <=? g5W x1) hx x0) as FZX; pose proof (ztest_false' (24 <=? g5W y1) hy y0) as FZY;
  assert (HCX : coefW hx x0 = hx * 18446744073709551616 + x0) by reflexivity;
  assert (HCY : coefW hy y0 = hy * 18446744073709551616 + y0) by reflexivity;
  pose proof (mag_EQ_intro (coefW hx x0) (coefW hy y0) ex ey ltac:(lia)) as MFE;
  pose proof (mag_GT_intro (coefW hx x0) (coefW hy y0) ex ey ltac:(lia) ltac:(lia)) as MFG;
  pose proof (mag_LT_intro (coefW hx x0) (coefW hy y0) ex ey ltac:(lia) ltac:(lia)) as MFL;
  set (ZX := ztest (24 <=? g5W x1) hx x0) in *; set (ZY := ztest (24 <=? g5W y1) hy y0) in *;
  set (UX := coefW hx x0 * 10 ^ ex) in *; set (UY := coefW hy y0 * 10 ^ ey) in *;
  set (MX := coefW hx x0 * 10 ^ (ex - ey)) in *; set (MY := coefW hy y0 * 10 ^ (ey - ex)) in *;
  assert (HMX : MX = coefW hx x0 * 10 ^ (ex - ey)) by reflexivity;
  assert (HMY : MY = coefW hy y0 * 10 ^ (ey - ex)) by reflexivity;
  clearbody ZX ZY UX UY MX MY.

(* open a theorem  i_f x0 x1 y0 y1 st = cmp_res i ...  (f: the generated function, i: the predicate number) *)
Ltac cmp_open x0 x1 y0 y1 st i :=
  rewrite (cmp_res_words i x0 x1 y0 y1 st) by assumption;
  unfold_helpers_cmp; red_lets; word_norm lia; mask_tests; rewrite ?(test_xor80 x1 y1) by assumption;
  unfold cmp_lad, rel_lad;
  let v := eval vm_compute in (pred_rels i) in change (pred_rels i) with v;
  let w := eval vm_compute in (pred_signaling i) in change (pred_signaling i) with w;
  cbv iota;
  cmp_ctx x0 x1 y0 y1.

(* ok_f = true: every index into BID_TEN2K64 / BID_TEN2K128 is in range on the path taken *)
Ltac cmp_ok x1 y1 :=
  unfold_helpers_cmp; red_lets; word_norm lia; mask_tests; rewrite ?(test_xor80 x1 y1) by assumption;
  unfold in_u64, in_u32 in *;
  set (ex := (x1 / 562949953421312) mod 16384) in *; set (ey := (y1 / 562949953421312) mod 16384) in *;
  assert (Hex : 0 <= ex < 16384) by (apply Z.mod_pos_bound; reflexivity);
  assert (Hey : 0 <= ey < 16384) by (apply Z.mod_pos_bound; reflexivity);
  clearbody ex ey; wrap_ids lia;
  ok_walk ltac:(unfold_machine; lia).
