(* Layer I: the rounding core shared by the to-integer and round-to-integral routines (logical path DVI):
   C * 10^(-x) through the 118-bit reciprocals BID_TEN2MK128 (x = 1..34), the shift / mask / truncated-reciprocal tables,
   the midpoint tables.  Table rows are checked against closed forms by kernel computation (34 + 19 + 15 rows).  Axiom-free. *)
From Coq Require Import ZArith Lia Bool List ZifyBool.
From DV Require Import Base Bid BidProofs OpsArith OpsCmp OpsMisc.
From DVI Require Import ImplLib ImplGen ImplCommon ImplMul0 ImplMul ImplRecip.
Import ListNotations.
Open Scope Z_scope.
Ltac dlia := Z.div_mod_to_equations; lia.

Definition P64 := 18446744073709551616.
Definition P128' := 340282366920938463463374607431768211456.
Definition rk (k:Z) : Z := nth (Z.to_nat (k - 1)) T_BID_TEN2MK128_w1 0 * 18446744073709551616 + nth (Z.to_nat (k - 1)) T_BID_TEN2MK128_w0 0.
Definition rs (k:Z) : Z := nth (Z.to_nat (k - 1)) T_BID_SHIFTRIGHT128 0.
Definition rm (k:Z) : Z := nth (Z.to_nat (k - 1)) T_BID_MASKHIGH128 0.
Definition rt (k:Z) : Z := nth (Z.to_nat (k - 1)) T_BID_TEN2MK128TRUNC_w1 0 * 18446744073709551616 + nth (Z.to_nat (k - 1)) T_BID_TEN2MK128TRUNC_w0 0.

(* row k (1..34): words in range; the shift is below 64 exactly for k <= 22; the mask is 2^(s mod 64) - 1; the truncated
   reciprocal is the reciprocal minus one; e = K * 10^k - 2^(128+s) is positive and small enough for every C' <= 2*10^34 *)
Definition round_row_ok (k:Z) : bool :=
  let K := rk k in let s := rs k in let D := 10 ^ k in let e := K * D - 2 ^ (128 + s) in
  (0 <=? nth (Z.to_nat (k - 1)) T_BID_TEN2MK128_w0 0) && (nth (Z.to_nat (k - 1)) T_BID_TEN2MK128_w0 0 <? 18446744073709551616) &&
  (0 <=? nth (Z.to_nat (k - 1)) T_BID_TEN2MK128_w1 0) && (nth (Z.to_nat (k - 1)) T_BID_TEN2MK128_w1 0 <? 18446744073709551616) &&
  (0 <=? nth (Z.to_nat (k - 1)) T_BID_TEN2MK128TRUNC_w0 0) && (nth (Z.to_nat (k - 1)) T_BID_TEN2MK128TRUNC_w0 0 <? 18446744073709551616) &&
  (0 <=? nth (Z.to_nat (k - 1)) T_BID_TEN2MK128TRUNC_w1 0) && (nth (Z.to_nat (k - 1)) T_BID_TEN2MK128TRUNC_w1 0 <? 18446744073709551616) &&
  (0 <=? s) && (s <? 128) && Bool.eqb (s <? 64) (k <=? 22) &&
  (rm k =? 2 ^ (s mod 64) - 1) && (rt k =? K - 1) &&
  (1 <=? e) && ((20000000000000000000000000000000000 / D + 3) * e <? K).
Lemma round_rows_ok : forallb round_row_ok (map Z.of_nat (seq 1 34)) = true.
Proof. vm_compute. reflexivity. Qed.

Lemma in_seq1 k n : 1 <= k <= Z.of_nat n -> In k (map Z.of_nat (seq 1 n)).
Proof.
  intros H. apply in_map_iff. exists (Z.to_nat k). split; [apply Z2Nat.id; lia|]. apply in_seq. lia.
Qed.

Lemma round_row k : 1 <= k <= 34 ->
  let K := rk k in let s := rs k in let e := K * 10 ^ k - 2 ^ (128 + s) in
  0 <= K < 340282366920938463463374607431768211456 /\ 0 <= rt k < 340282366920938463463374607431768211456 /\
  0 <= s < 128 /\ ((s <? 64) = (k <=? 22)) /\ rm k = 2 ^ (s mod 64) - 1 /\ rt k = K - 1 /\
  1 <= e /\ (20000000000000000000000000000000000 / 10 ^ k + 3) * e < K.
Proof.
  intros Hk. pose proof round_rows_ok as A. rewrite forallb_forall in A.
  specialize (A k (in_seq1 k 34 ltac:(change (Z.of_nat 34) with 34; lia))). unfold round_row_ok in A. cbv zeta in A.
  rewrite !andb_true_iff in A. destruct A as [[[[[[[[[[[[[[A1 A2] A3] A4] A5] A6] A7] A8] A9] A10] A11] A12] A13] A14] A15].
  apply Z.leb_le in A1, A3, A5, A7, A9, A14. apply Z.ltb_lt in A2, A4, A6, A8, A10, A15. apply Z.eqb_eq in A12, A13.
  apply Bool.eqb_prop in A11. cbv zeta. unfold rk, rt in *. repeat split; try lia; try assumption.
Qed.

Lemma le128 a1 a0 b1 b0 : 0 <= a0 < 18446744073709551616 -> 0 <= b0 < 18446744073709551616 ->
  ((a1 <? b1) || ((a1 =? b1) && (a0 <=? b0))) = (a1 * 18446744073709551616 + a0 <=? b1 * 18446744073709551616 + b0).
Proof. intros. lia. Qed.

(* the quotient and the exact-division test read off the four words of C' * K (pure part: quot_tests in ImplRecip.v) *)
Lemma round_core k C' p0 p1 p2 p3 : 1 <= k <= 34 -> 0 <= C' <= 20000000000000000000000000000000000 ->
  in_u64 p0 -> in_u64 p1 -> in_u64 p2 -> in_u64 p3 ->
  ((p3 * 18446744073709551616 + p2) * 18446744073709551616 + p1) * 18446744073709551616 + p0 = C' * rk k ->
  let s := rs k in let Q := C' / 10 ^ k in let r := C' mod 10 ^ k in let lo := p1 * 18446744073709551616 + p0 in
  (k <= 22 -> (p3 * 18446744073709551616 + p2) / 2 ^ s = Q /\
     ((p2 mod 2 ^ s =? 0) && (negb (lo =? 0)) && (lo <=? rt k)) = ((r =? 0) && (0 <? Q))) /\
  (23 <= k -> p3 / 2 ^ (s - 64) = Q /\
     ((p3 mod 2 ^ (s - 64) =? 0) && (p2 =? 0) && (negb (lo =? 0)) && (lo <=? rt k)) = ((r =? 0) && (0 <? Q))).
Proof.
  intros Hk HC H0 H1 H2 H3 HP s Q r lo.
  destruct (round_row k Hk) as (RK & RT & RS & RB & RM & RTE & RE1 & RE2). cbv zeta in *. fold s in RS, RB, RM, RE1, RE2.
  assert (HD : 0 < 10 ^ k) by (apply Z.pow_pos_nonneg; lia).
  pose proof (quot_tests (rk k) s (10 ^ k) (rk k * 10 ^ k - 2 ^ (128 + s)) 20000000000000000000000000000000000 C' p0 p1 p2 p3
                HD ltac:(lia) ltac:(ring) RE1 HC RE2 RK H0 H1 H2 H3 HP) as QT.
  cbv zeta in QT. rewrite RTE. destruct QT as [QA QB]. split.
  - intros Hk22. apply QA. destruct (Z.ltb_spec s 64); [lia|]. destruct (Z.leb_spec k 22); [discriminate|lia].
  - intros Hk23. apply QB. destruct (Z.ltb_spec s 64); [|lia]. destruct (Z.leb_spec k 22); [lia|discriminate].
Qed.

(* midpoints 5 * 10^i: BID_MIDPOINT64 (i = 0..18), BID_MIDPOINT128 (i = 19..33) *)
Lemma midpoint64_all : forallb (fun i => nth (Z.to_nat i) T_BID_MIDPOINT64 0 =? 5 * 10 ^ i) (map Z.of_nat (seq 0 19)) = true.
Proof. vm_compute. reflexivity. Qed.
Lemma midpoint128_all : forallb (fun i => (0 <=? nth (Z.to_nat i) T_BID_MIDPOINT128_w0 0) && (nth (Z.to_nat i) T_BID_MIDPOINT128_w0 0 <? 18446744073709551616) &&
    (nth (Z.to_nat i) T_BID_MIDPOINT128_w1 0 * 18446744073709551616 + nth (Z.to_nat i) T_BID_MIDPOINT128_w0 0 =? 5 * 10 ^ (i + 19)))
  (map Z.of_nat (seq 0 15)) = true.
Proof. vm_compute. reflexivity. Qed.
Lemma midpoint64_row i : 0 <= i < 19 -> nth (Z.to_nat i) T_BID_MIDPOINT64 0 = 5 * 10 ^ i.
Proof.
  intros H. pose proof midpoint64_all as A. rewrite forallb_forall in A.
  specialize (A i (in_range_list i 19 ltac:(change (Z.of_nat 19) with 19; lia))). apply Z.eqb_eq in A. exact A.
Qed.
Lemma midpoint128_row i : 0 <= i < 15 ->
  in_u64 (nth (Z.to_nat i) T_BID_MIDPOINT128_w0 0) /\
  nth (Z.to_nat i) T_BID_MIDPOINT128_w1 0 * 18446744073709551616 + nth (Z.to_nat i) T_BID_MIDPOINT128_w0 0 = 5 * 10 ^ (i + 19).
Proof.
  intros H. pose proof midpoint128_all as A. rewrite forallb_forall in A.
  specialize (A i (in_range_list i 15 ltac:(change (Z.of_nat 15) with 15; lia))).
  rewrite !andb_true_iff in A. destruct A as [[A1 A2] A3]. apply Z.leb_le in A1. apply Z.ltb_lt in A2. apply Z.eqb_eq in A3.
  unfold in_u64. split; [lia|exact A3].
Qed.

(* ---------- the common prefix of the to-integer routines: bit length and digit count of the coefficient ---------- *)
From DV Require Import ScaleProofs.
From DVI Require Import ImplTables.

Definition nbits_expr (w0 hi : Z) : Z :=
  let '(_, x_nr_bits) :=
      if hi =? 0
      then let '(tmp1_ui64, x_nr_bits) :=
        if w0 >=? 9007199254740992
        then (f64_bits_of_u64 (w0 / 4294967296),
              wrap_u32 (33 + wrap_u32 ((f64_bits_of_u64 (w0 / 4294967296) / 4503599627370496) mod 2048 - 1023)))
        else (f64_bits_of_u64 w0, wrap_u32 (1 + wrap_u32 ((f64_bits_of_u64 w0 / 4503599627370496) mod 2048 - 1023))) in
        (tmp1_ui64, x_nr_bits)
      else (f64_bits_of_u64 hi, wrap_u32 (65 + wrap_u32 ((f64_bits_of_u64 hi / 4503599627370496) mod 2048 - 1023))) in
  x_nr_bits.

Lemma nbits_spec w0 hi : 0 <= w0 < 18446744073709551616 -> 0 <= hi < 562949953421312 ->
  0 < hi * 18446744073709551616 + w0 -> nbits_expr w0 hi = 1 + Z.log2 (hi * 18446744073709551616 + w0).
Proof.
  intros H0 Hhi HC. unfold nbits_expr. set (C := hi * 18446744073709551616 + w0) in *.
  destruct (hi =? 0) eqn:Hz; [destruct (w0 >=? 9007199254740992) eqn:Big|].
  - assert (X1 : 0 < w0 / 4294967296 < 9007199254740992) by lia.
    rewrite (f64_exp_field _ X1). pose proof (log2_lt_53 _ X1). wrap_ids lia.
    rewrite (log2_div_pow2 w0 32 4294967296) by (try reflexivity; lia). unfold C. replace hi with 0 by lia.
    replace (0 * 18446744073709551616 + w0) with w0 by lia. lia.
  - assert (X1 : 0 < w0 < 9007199254740992) by (unfold C in HC; lia).
    rewrite (f64_exp_field _ X1). pose proof (log2_lt_53 _ X1). wrap_ids lia.
    unfold C. replace hi with 0 by lia. replace (0 * 18446744073709551616 + w0) with w0 by lia. lia.
  - assert (X1 : 0 < hi < 9007199254740992) by lia.
    rewrite (f64_exp_field _ X1). pose proof (log2_lt_53 _ X1). wrap_ids lia.
    unfold C. rewrite log2_hi_lo by lia. lia.
Qed.

(* the digit count read from BID_NR_DIGITS at index nb - 1, nb = 1 + floor(log2 C) *)
Definition qdigits_expr (w0 hi nb : Z) : Z :=
  if wrap_i32 (nth (Z.to_nat (wrap_u32 (nb - 1))) T_BID_NR_DIGITS_digits 0) =? 0
  then if (hi >? nth (Z.to_nat (wrap_u32 (nb - 1))) T_BID_NR_DIGITS_threshold_hi 0)
          || (hi =? nth (Z.to_nat (wrap_u32 (nb - 1))) T_BID_NR_DIGITS_threshold_hi 0) &&
             (w0 >=? nth (Z.to_nat (wrap_u32 (nb - 1))) T_BID_NR_DIGITS_threshold_lo 0)
       then wrap_i32 (wrap_i32 (nth (Z.to_nat (wrap_u32 (nb - 1))) T_BID_NR_DIGITS_digits1 0) + 1)
       else wrap_i32 (nth (Z.to_nat (wrap_u32 (nb - 1))) T_BID_NR_DIGITS_digits1 0)
  else wrap_i32 (nth (Z.to_nat (wrap_u32 (nb - 1))) T_BID_NR_DIGITS_digits 0).

Lemma qdigits_spec w0 hi : 0 <= w0 < 18446744073709551616 -> 0 <= hi < 562949953421312 ->
  0 < hi * 18446744073709551616 + w0 < 10000000000000000000000000000000000 ->
  let C := hi * 18446744073709551616 + w0 in
  qdigits_expr w0 hi (1 + Z.log2 C) = ndigits C /\ 1 <= ndigits C <= 34 /\ 1 <= 1 + Z.log2 C <= 113.
Proof.
  intros H0 Hhi HC C. unfold qdigits_expr. fold C in HC.
  set (n := 1 + Z.log2 C) in *.
  assert (HCn : 2 ^ (n - 1) <= C < 2 ^ n).
  { replace (n - 1) with (Z.log2 C) by (unfold n; lia). unfold n. rewrite Z.add_comm. apply log2_bounds. lia. }
  assert (Hn : 1 <= n <= 113).
  { split; [pose proof (Z.log2_nonneg C); unfold n; lia|].
    assert (Z.log2 C < 113) by (apply Z.log2_lt_pow2; [lia|]; change (2 ^ 113) with 10384593717069655257060992658440192; lia).
    unfold n; lia. }
  rewrite (wrap_u32_id (n - 1)) by (unfold in_u32; lia).
  change (nth (Z.to_nat (n - 1)) T_BID_NR_DIGITS_digits 0) with (nrd_d n).
  change (nth (Z.to_nat (n - 1)) T_BID_NR_DIGITS_digits1 0) with (nrd_d1 n).
  change (nth (Z.to_nat (n - 1)) T_BID_NR_DIGITS_threshold_hi 0) with (nrd_hi n).
  change (nth (Z.to_nat (n - 1)) T_BID_NR_DIGITS_threshold_lo 0) with (nrd_lo n).
  destruct (nr_digits_spec n C Hn HCn) as (D1 & D2 & D3 & D4 & D5). unfold in_u64 in D3, D4.
  assert (Hq : 1 <= ndigits C <= 34).
  { unfold ndigits. apply digits34. change (10 ^ 34) with 10000000000000000000000000000000000. exact HC. }
  split; [|split; [exact Hq|exact Hn]].
  rewrite D5. clear HCn D5 Hq. clearbody n. wrap_ids lia.
  destruct (nrd_d n =? 0); [|reflexivity].
  destruct (nrd_hi n * 18446744073709551616 + nrd_lo n <=? C) eqn:?;
  destruct ((hi >? nrd_hi n) || (hi =? nrd_hi n) && (w0 >=? nrd_lo n)) eqn:?; wrap_ids lia; unfold C in *; lia.
Qed.

(* ---------- the model's round-to-nearest-even integer quotient in the form the code computes it ---------- *)
From Flocq Require Import Core.Core Calc.Bracket Calc.Round.

Lemma digits_pow10 c : 0 < c -> 10 ^ (ndigits c - 1) <= c < 10 ^ ndigits c.
Proof. intros Hc. unfold ndigits. pose proof (Zdigits_correct radix10 c) as H. rewrite Z.abs_eq in H by lia. exact H. Qed.

(* RNE of c / 10^k (k >= 1): add half, divide, and step back from an odd quotient when the division was exact *)
Definition rne_q (c k : Z) : Z :=
  let D := 10 ^ k in let c' := c + 5 * 10 ^ (k - 1) in let Q := c' / D in
  if (c' mod D =? 0) && Z.odd Q then Q - 1 else Q.

Lemma rne_choice s c k : 0 <= c -> 1 <= k ->
  choice RNE s (c / 10 ^ k) (loc_of_rem (c mod 10 ^ k) (10 ^ k)) = rne_q c k.
Proof.
  intros Hc Hk. unfold rne_q. cbv zeta.
  set (D := 10 ^ k). assert (HD : 0 < D) by (apply Z.pow_pos_nonneg; lia).
  assert (DH : D = 2 * (5 * 10 ^ (k - 1))) by (unfold D; replace k with (Z.succ (k - 1)) at 1 by lia; rewrite Z.pow_succ_r by lia; ring).
  set (h := 5 * 10 ^ (k - 1)) in *. assert (Hh : 0 < h) by (unfold h; assert (0 < 10 ^ (k - 1)) by (apply Z.pow_pos_nonneg; lia); lia).
  pose proof (Z.div_mod c D ltac:(lia)) as DM. pose proof (Z.mod_pos_bound c D HD) as MB.
  set (q := c / D) in *. set (r := c mod D) in *.
  assert (Hq : 0 <= q) by (apply Z.div_pos; lia).
  assert (E1 : (c + h) / D = q + (if r + h <? D then 0 else 1) /\ (c + h) mod D = (if r + h <? D then r + h else r + h - D)).
  { destruct (Z.ltb_spec (r + h) D).
    - split; [symmetry; apply (Z.div_unique (c + h) D (q + 0) (r + h)); lia|symmetry; apply (Z.mod_unique (c + h) D (q + 0) (r + h)); lia].
    - split; [symmetry; apply (Z.div_unique (c + h) D (q + 1) (r + h - D)); lia|symmetry; apply (Z.mod_unique (c + h) D (q + 1) (r + h - D)); lia]. }
  destruct E1 as [E1 E2]. rewrite E1, E2. clear E1 E2. clearbody q r h D. clear DM Hc.
  assert (ODD : Z.odd (q + 1) = Z.even q) by (rewrite Z.add_1_r, Z.odd_succ; reflexivity).
  unfold choice, loc_of_rem, round_N, cond_incr.
  destruct (Z.eqb_spec r 0) as [R0|R0].
  - cbn [is_exact negb]. destruct (Z.ltb_spec (r + h) D); [|lia]. destruct (Z.eqb_spec (r + h) 0); [lia|]. cbn [andb]. lia.
  - destruct (Z.compare_spec (2 * r) D) as [CE|CL|CG].
    + destruct (Z.ltb_spec (r + h) D); [lia|]. replace (r + h - D) with 0 by lia. cbn [Z.eqb andb].
      rewrite ODD. rewrite <- Z.negb_odd. destruct (Z.odd q); cbn [negb]; lia.
    + destruct (Z.ltb_spec (r + h) D); [|lia]. destruct (Z.eqb_spec (r + h) 0); [lia|]. cbn [andb]. lia.
    + destruct (Z.ltb_spec (r + h) D); [lia|]. destruct (Z.eqb_spec (r + h - D) 0); [lia|]. cbn [andb]. lia.
Qed.

Lemma rne_q_split c k : 0 <= c -> 1 <= k ->
  let D := 10 ^ k in let h := 5 * 10 ^ (k - 1) in let Q := (c + h) / D in let r' := (c + h) mod D in
  D = 2 * h /\ 0 < h /\ c + h = Q * D + r' /\ 0 <= r' < D /\ 0 <= Q /\
  rne_q c k = (if (r' =? 0) && Z.odd Q then Q - 1 else Q).
Proof.
  intros Hc Hk D h Q r'.
  assert (HD : 0 < D) by (apply Z.pow_pos_nonneg; lia).
  assert (DH : D = 2 * h) by (unfold D, h; replace k with (Z.succ (k - 1)) at 1 by lia; rewrite Z.pow_succ_r by lia; ring).
  assert (Hh : 0 < h) by (unfold h; assert (0 < 10 ^ (k - 1)) by (apply Z.pow_pos_nonneg; lia); lia).
  pose proof (Z.div_mod (c + h) D ltac:(lia)) as DM. pose proof (Z.mod_pos_bound (c + h) D HD) as MB.
  assert (HQ : 0 <= Q) by (apply Z.div_pos; lia).
  repeat split; try lia.
Qed.

(* threshold form of "RNE(c / 10^k) <= N" *)
Lemma rne_q_le c k N : 0 <= c -> 1 <= k -> 0 <= N ->
  (rne_q c k <= N <-> (if Z.even N then c <= N * 10 ^ k + 5 * 10 ^ (k - 1) else c < N * 10 ^ k + 5 * 10 ^ (k - 1))).
Proof.
  intros Hc Hk HN. destruct (rne_q_split c k Hc Hk) as (DH & Hh & DM & MB & HQ & ->). cbv zeta in *.
  set (D := 10 ^ k) in *. set (h := 5 * 10 ^ (k - 1)) in *. set (Q := (c + h) / D) in *. set (r' := (c + h) mod D) in *.
  clearbody Q r' D h. clear Hk.
  assert (EO : Z.even N = negb (Z.odd N)) by (symmetry; apply Z.negb_odd).
  destruct (Z.odd N) eqn:ON; rewrite EO; cbn [negb].
  - (* N odd *)
    split.
    + intros H. destruct (Z_lt_le_dec c (N * D + h)) as [L|L]; [exact L|exfalso].
      assert (N + 1 <= Q) by nia.
      destruct ((r' =? 0) && Z.odd Q) eqn:T; [|lia].
      apply andb_true_iff in T. destruct T as [_ OQ].
      assert (Q <> N + 1).
      { intros ->. rewrite Z.add_1_r, Z.odd_succ, <- Z.negb_odd, ON in OQ. discriminate. }
      lia.
    + intros H. assert (Q <= N) by nia. destruct ((r' =? 0) && Z.odd Q); lia.
  - (* N even *)
    split.
    + intros H. destruct (Z_le_gt_dec c (N * D + h)) as [L|L]; [exact L|exfalso].
      assert (HQ1 : N + 1 <= Q) by nia.
      destruct ((r' =? 0) && Z.odd Q) eqn:T; [|lia].
      apply andb_true_iff in T. destruct T as [R0 OQ]. apply Z.eqb_eq in R0.
      assert (Q <> N + 1) by (intros ->; nia). lia.
    + intros H. assert (HQ1 : Q <= N + 1) by nia.
      destruct (Z.eq_dec Q (N + 1)) as [EQ|NE].
      * assert (r' = 0) by nia. subst r'. cbn [Z.eqb andb]. rewrite EQ, Z.add_1_r, Z.odd_succ, <- Z.negb_odd, ON. cbn [negb]. lia.
      * destruct ((r' =? 0) && Z.odd Q); lia.
Qed.

Lemma rne_q_bounds c k : 0 <= c -> 1 <= k -> c / 10 ^ k <= rne_q c k <= c / 10 ^ k + 1.
Proof.
  intros Hc Hk. destruct (rne_q_split c k Hc Hk) as (DH & Hh & DM & MB & HQ & ->). cbv zeta in *.
  set (D := 10 ^ k) in *. set (h := 5 * 10 ^ (k - 1)) in *. set (Q := (c + h) / D) in *. set (r' := (c + h) mod D) in *.
  assert (HD : 0 < D) by lia.
  pose proof (Z.div_mod c D ltac:(lia)) as DM2. pose proof (Z.mod_pos_bound c D HD) as MB2.
  set (q := c / D) in *. set (r := c mod D) in *. clearbody Q r' q r D h. clear Hk.
  destruct ((r' =? 0) && Z.odd Q) eqn:T.
  - apply andb_true_iff in T. destruct T as [R0 _]. apply Z.eqb_eq in R0. subst r'. nia.
  - nia.
Qed.

(* ---------- small word facts used by the rounding branch ---------- *)
Lemma land_pow2m1 x n : 0 <= n -> Z.land x (2 ^ n - 1) = x mod 2 ^ n.
Proof. intros Hn. rewrite <- Z.land_ones by exact Hn. rewrite Z.ones_equiv. reflexivity. Qed.

Lemma land1_odd x : (Z.land x 1 =? 1) = Z.odd x.
Proof.
  change 1 with (2 ^ 1 - 1) at 1. rewrite land_pow2m1 by lia. change (2 ^ 1) with 2.
  rewrite Zodd_mod. unfold Zeq_bool. destruct (Z.eqb_spec (x mod 2) 1) as [E|E]; [rewrite E; reflexivity|].
  destruct (x mod 2 ?= 1) eqn:Cmp; try reflexivity. apply Z.compare_eq in Cmp. contradiction.
Qed.

(* the low word of (p3 : p2) >> s as the code forms it (for s = 0 the left shift by 64 is masked to a shift by 0) *)
Lemma lor_shift_pair p2 p3 s : in_u64 p2 -> in_u64 p3 -> 0 <= s < 64 ->
  (p3 * 18446744073709551616 + p2) / 2 ^ s < 18446744073709551616 ->
  Z.lor (Z.shiftr p2 (s mod 64)) (wrap_u64 (Z.shiftl p3 ((64 - s) mod 64))) = (p3 * 18446744073709551616 + p2) / 2 ^ s.
Proof.
  unfold in_u64. intros H2 H3 Hs HQ. rewrite (Z.mod_small s 64) by lia.
  destruct (Z.eq_dec s 0) as [->|Ns].
  - change ((64 - 0) mod 64) with 0. rewrite Z.shiftr_0_r, Z.shiftl_0_r. change (2 ^ 0) with 1 in *. rewrite Z.div_1_r in *.
    assert (p3 = 0) by lia. subst p3. unfold wrap_u64. rewrite Z.mod_0_l by lia. rewrite Z.lor_0_r. lia.
  - rewrite (Z.mod_small (64 - s) 64) by lia. rewrite Z.shiftr_div_pow2, Z.shiftl_mul_pow2 by lia.
    assert (Hps : 0 < 2 ^ s) by (apply Z.pow_pos_nonneg; lia).
    assert (Hpt : 0 < 2 ^ (64 - s)) by (apply Z.pow_pos_nonneg; lia).
    assert (E64 : 18446744073709551616 = 2 ^ (64 - s) * 2 ^ s) by (rewrite <- Z.pow_add_r by lia; replace (64 - s + s) with 64 by ring; reflexivity).
    assert (EQ : (p3 * 18446744073709551616 + p2) / 2 ^ s = p3 * 2 ^ (64 - s) + p2 / 2 ^ s).
    { rewrite E64 at 1. rewrite Z.mul_assoc, Z.div_add_l by lia. reflexivity. }
    rewrite EQ in *.
    assert (Hd : 0 <= p2 / 2 ^ s < 2 ^ (64 - s)).
    { split; [apply Z.div_pos; lia|]. apply Z.div_lt_upper_bound; [lia|]. rewrite Z.mul_comm, <- E64. lia. }
    assert (Hw : wrap_u64 (p3 * 2 ^ (64 - s)) = p3 * 2 ^ (64 - s)).
    { unfold wrap_u64. apply Z.mod_small. split; [apply Z.mul_nonneg_nonneg; lia|]. lia. }
    rewrite Hw. rewrite (lor_low_mult (p2 / 2 ^ s) (p3 * 2 ^ (64 - s)) (64 - s) (2 ^ (64 - s))); [lia|lia|reflexivity|exact Hd|].
    apply Z.mod_mul. lia.
Qed.

Lemma lo_nonzero p1 p0 : 0 <= p0 < 18446744073709551616 -> 0 <= p1 ->
  (negb (p1 =? 0) || negb (p0 =? 0)) = negb (p1 * 18446744073709551616 + p0 =? 0).
Proof. intros. lia. Qed.

Lemma round_quot_bounds C q k : 10 ^ (q - 1) <= C < 10 ^ q -> 1 <= k -> k <= q - 1 -> q - k <= 10 ->
  1 <= (C + 5 * 10 ^ (k - 1)) / 10 ^ k <= 10000000001.
Proof.
  intros HC Hk Hkq Hq10. set (D := 10 ^ k). set (h := 5 * 10 ^ (k - 1)).
  assert (HD : 0 < D) by (apply Z.pow_pos_nonneg; lia).
  assert (E1 : 10 ^ (q - 1) = 10 ^ (q - 1 - k) * D) by (unfold D; rewrite <- Z.pow_add_r by lia; f_equal; lia).
  assert (E2 : 10 ^ q = 10 ^ (q - k) * D) by (unfold D; rewrite <- Z.pow_add_r by lia; f_equal; lia).
  assert (P1' : 1 <= 10 ^ (q - 1 - k)) by (apply (Z.pow_le_mono_r 10 0); lia).
  assert (P2' : 10 ^ (q - k) <= 10 ^ 10) by (apply Z.pow_le_mono_r; lia). change (10 ^ 10) with 10000000000 in P2'.
  assert (Hhd : 2 * h = D) by (unfold h, D; replace k with (Z.succ (k - 1)) at 2 by lia; rewrite Z.pow_succ_r by lia; ring).
  assert (Hh : 0 < h) by lia.
  set (a := 10 ^ (q - 1 - k)) in *. set (b := 10 ^ (q - k)) in *. rewrite E1, E2 in HC. clearbody a b D h. clear E1 E2 Hk Hkq Hq10.
  split.
  - apply Z.div_le_lower_bound; [lia|]. nia.
  - assert ((C + h) / D < b + 1); [|lia]. apply Z.div_lt_upper_bound; [lia|]. nia.
Qed.

(* ---------- the two helper products of the threshold comparisons ---------- *)
Lemma S_mul_64x64_to_128MACH CX CY : in_u64 CX -> in_u64 CY ->
  let '(lo, hi) := i___mul_64x64_to_128MACH CX CY in
  in_u64 lo /\ in_u64 hi /\ hi * 18446744073709551616 + lo = CX * CY.
Proof.
  unfold in_u64. intros HX HY. unfold i___mul_64x64_to_128MACH, i_d128_new. cbv beta iota zeta.
  rewrite !(shiftr_lit _ 32 4294967296) by (try reflexivity; lia).
  rewrite !(shiftl_lit _ 32 4294967296) by (try reflexivity; lia).
  unfold wrap_u32, wrap_u64.
  set (xh := CX / 4294967296). set (xl := CX mod 4294967296). set (yh := CY / 4294967296). set (yl := CY mod 4294967296).
  assert (Hxh : 0 <= xh <= 4294967295) by (unfold xh; lia). assert (Hxl : 0 <= xl <= 4294967295) by (unfold xl; lia).
  assert (Hyh : 0 <= yh <= 4294967295) by (unfold yh; lia). assert (Hyl : 0 <= yl <= 4294967295) by (unfold yl; lia).
  assert (EX : CX = xh * 4294967296 + xl) by (unfold xh, xl; lia).
  assert (EY : CY = yh * 4294967296 + yl) by (unfold yh, yl; lia).
  assert (EP : CX * CY = (xh * yh) * 18446744073709551616 + (xh * yl + xl * yh) * 4294967296 + xl * yl) by (rewrite EX, EY; ring).
  rewrite EP. clear EP EX EY.
  pose proof (mul_bound xh yl _ _ Hxh Hyl) as B1. pose proof (mul_bound xh yh _ _ Hxh Hyh) as B2.
  pose proof (mul_bound xl yl _ _ Hxl Hyl) as B3. pose proof (mul_bound xl yh _ _ Hxl Hyh) as B4.
  set (a := xh * yl) in *. set (b := xh * yh) in *. set (c := xl * yl) in *. set (d := xl * yh) in *.
  clearbody a b c d xh xl yh yl. cbn in B1, B2, B3, B4.
  lia.
Qed.

Lemma S_mul_128x64_to_128 A B0 B1 : in_u64 A -> in_u64 B0 -> in_u64 B1 ->
  let '(q0, q1) := i___mul_128x64_to_128 A B0 B1 in
  in_u64 q0 /\ in_u64 q1 /\ q1 * 18446744073709551616 + q0 = (A * (B1 * 18446744073709551616 + B0)) mod 340282366920938463463374607431768211456.
Proof.
  intros HA H0 H1. unfold i___mul_128x64_to_128. cbv beta iota zeta.
  pose proof (S_mul_64x64_to_128MACH A B0 HA H0) as S0. destruct (i___mul_64x64_to_128MACH A B0) as [l0 l1].
  destruct S0 as (R3 & R4 & E0). unfold wrap_u64.
  replace (A * (B1 * 18446744073709551616 + B0)) with ((A * B1) * 18446744073709551616 + A * B0) by ring. rewrite <- E0.
  set (p := A * B1). clearbody p. unfold in_u64 in *. repeat split; lia.
Qed.

Lemma gt128 a1 a0 b1 b0 : 0 <= a0 < 18446744073709551616 -> 0 <= b0 < 18446744073709551616 ->
  ((a1 >? b1) || ((a1 =? b1) && (a0 >? b0))) = (a1 * 18446744073709551616 + a0 >? b1 * 18446744073709551616 + b0).
Proof. intros. lia. Qed.
Lemma ge128 a1 a0 b1 b0 : 0 <= a0 < 18446744073709551616 -> 0 <= b0 < 18446744073709551616 ->
  ((a1 >? b1) || ((a1 =? b1) && (a0 >=? b0))) = (a1 * 18446744073709551616 + a0 >=? b1 * 18446744073709551616 + b0).
Proof. intros. lia. Qed.

(* ---------- the rounded magnitude of the model and its comparisons with 2^31 and 2^31 - 1 at 11 integer digits ---------- *)
Definition rnint_mag (C e : Z) : Z := if 0 <=? e then C * 10 ^ e else if 45 <? - e then 0 else rne_q C (- e).

Lemma mag_small C q e : 10 ^ (q - 1) <= C < 10 ^ q -> 1 <= q -> q + e <= 9 -> 0 <= rnint_mag C e <= 1000000001.
Proof.
  intros HC Hq Hs. assert (HC0 : 0 < C) by (assert (0 < 10 ^ (q - 1)) by (apply Z.pow_pos_nonneg; lia); lia).
  unfold rnint_mag. destruct (Z.leb_spec 0 e).
  - assert (0 < 10 ^ e) by (apply Z.pow_pos_nonneg; lia).
    assert (10 ^ (q + e) <= 10 ^ 9) by (apply Z.pow_le_mono_r; lia). rewrite Z.pow_add_r in H1 by lia.
    change (10 ^ 9) with 1000000000 in *. nia.
  - destruct (45 <? - e); [lia|]. set (k := - e) in *.
    pose proof (rne_q_bounds C k ltac:(lia) ltac:(lia)) as RB.
    assert (HD : 0 < 10 ^ k) by (apply Z.pow_pos_nonneg; lia).
    assert (0 <= C / 10 ^ k) by (apply Z.div_pos; lia).
    assert (C / 10 ^ k <= 1000000000); [|lia].
    destruct (Z_le_gt_dec q k).
    + assert (10 ^ q <= 10 ^ k) by (apply Z.pow_le_mono_r; lia). rewrite Z.div_small by lia. lia.
    + assert (C / 10 ^ k < 10 ^ (q - k)).
      { apply Z.div_lt_upper_bound; [lia|]. rewrite <- Z.pow_add_r by lia. replace (k + (q - k)) with q by ring. lia. }
      assert (10 ^ (q - k) <= 10 ^ 9) by (apply Z.pow_le_mono_r; unfold k; lia). change (10 ^ 9) with 1000000000 in *. lia.
Qed.

(* q + e = 10: the scaled comparison the code makes. N = 2^31 (negative operands) or 2^31 - 1 (positive) *)
Lemma mag_thresh C q e N T : 10 ^ (q - 1) <= C < 10 ^ q -> 1 <= q <= 34 -> q + e = 10 -> 0 <= N ->
  T = N * 10 + 5 ->
  (q <= 11 -> (rnint_mag C e <= N <-> (if Z.even N then C * 10 ^ (11 - q) <= T else C * 10 ^ (11 - q) < T))) /\
  (12 <= q -> (rnint_mag C e <= N <-> (if Z.even N then C <= T * 10 ^ (q - 11) else C < T * 10 ^ (q - 11)))).
Proof.
  intros HC Hq Hs HN ->. assert (HC0 : 0 < C) by (assert (0 < 10 ^ (q - 1)) by (apply Z.pow_pos_nonneg; lia); lia).
  unfold rnint_mag. split.
  - intros Hq11. destruct (Z.leb_spec 0 e).
    + (* e >= 0: the value is an integer *)
      replace (11 - q) with (e + 1) by lia. rewrite Z.pow_add_r by lia. change (10 ^ 1) with 10.
      set (m := C * 10 ^ e). replace (C * (10 ^ e * 10)) with (m * 10) by (unfold m; ring). clearbody m.
      destruct (Z.even N); lia.
    + assert (e = -1) by lia. subst e. replace (11 - q) with 0 by lia. change (10 ^ 0) with 1. rewrite Z.mul_1_r.
      cbn [Z.opp Z.ltb Z.compare]. change (45 <? 1) with false. cbv iota.
      pose proof (rne_q_le C 1 N ltac:(lia) ltac:(lia) HN) as RL. change (10 ^ 1) with 10 in RL. change (5 * 10 ^ (1 - 1)) with 5 in RL.
      exact RL.
  - intros Hq12. replace (0 <=? e) with false by lia. replace (45 <? - e) with false by lia.
    pose proof (rne_q_le C (- e) N ltac:(lia) ltac:(lia) HN) as RL.
    replace (- e) with (q - 10) in * by lia.
    assert (E : (N * 10 + 5) * 10 ^ (q - 11) = N * 10 ^ (q - 10) + 5 * 10 ^ (q - 10 - 1)).
    { replace (q - 10) with (Z.succ (q - 11)) by lia. rewrite Z.pow_succ_r by lia. replace (Z.succ (q - 11) - 1) with (q - 11) by lia. ring. }
    rewrite E. exact RL.
Qed.

Lemma pow10_u64' d : 0 <= d < 20 -> in_u64 (10 ^ d).
Proof.
  intros H. unfold in_u64. split; [apply Z.pow_nonneg; lia|].
  apply Z.le_lt_trans with (10 ^ 19); [apply Z.pow_le_mono_r; lia|]. vm_compute. reflexivity.
Qed.

(* the 128-bit threshold T * 10^(q-11) as the code forms it (12 <= q <= 34) *)
Lemma thresh_pair T q : 0 <= T <= 21474836485 -> 12 <= q <= 34 ->
  let '(c0, c1) :=
      if wrap_i32 (q - 11) <=? 19
      then let '(C_w0, C_w1) := i___mul_64x64_to_128MACH T (nth (Z.to_nat (wrap_usize (wrap_i32 (q - 11)))) T_BID_TEN2K64 0) in (C_w0, C_w1)
      else let '(C_w0, C_w1) := i___mul_128x64_to_128 T (nth (Z.to_nat (wrap_usize (wrap_i32 (q - 31)))) T_BID_TEN2K128_w0 0)
                                  (nth (Z.to_nat (wrap_usize (wrap_i32 (q - 31)))) T_BID_TEN2K128_w1 0) in (C_w0, C_w1) in
  0 <= c0 < 18446744073709551616 /\ c1 * 18446744073709551616 + c0 = T * 10 ^ (q - 11).
Proof.
  intros HT Hq. rewrite (wrap_i32_id (q - 11)) by (unfold in_i32; lia).
  assert (TU : in_u64 T) by (unfold in_u64; lia).
  destruct (Z.leb_spec (q - 11) 19).
  - rewrite (wrap_usize_id (q - 11)) by (unfold in_u64; lia). rewrite (ten2k64_row (q - 11)) by lia.
    pose proof (S_mul_64x64_to_128MACH T (10 ^ (q - 11)) TU (pow10_u64' (q - 11) ltac:(lia))) as S.
    destruct (i___mul_64x64_to_128MACH T (10 ^ (q - 11))) as [a b]. destruct S as (A & B & E). unfold in_u64 in A. split; [exact A|exact E].
  - rewrite (wrap_i32_id (q - 31)) by (unfold in_i32; lia). rewrite (wrap_usize_id (q - 31)) by (unfold in_u64; lia).
    destruct (ten2k128_row (q - 31) ltac:(lia)) as (R0 & R1 & RE). replace (q - 31 + 20) with (q - 11) in RE by ring.
    pose proof (S_mul_128x64_to_128 T _ _ TU R0 R1) as S.
    destruct (i___mul_128x64_to_128 T _ _) as [a b]. destruct S as (A & B & E). rewrite RE in E. unfold in_u64 in A. split; [exact A|].
    rewrite E. apply Z.mod_small.
    assert (0 < 10 ^ (q - 11)) by (apply Z.pow_pos_nonneg; lia).
    assert (10 ^ (q - 11) <= 10 ^ 23) by (apply Z.pow_le_mono_r; lia). change (10 ^ 23) with 100000000000000000000000 in *. nia.
Qed.

(* ---------- round-half-away (RNA): the add-half quotient without tie correction ---------- *)
Definition rna_q (c k : Z) : Z := (c + 5 * 10 ^ (k - 1)) / 10 ^ k.

Lemma rna_choice s c k : 0 <= c -> 1 <= k ->
  choice RNA s (c / 10 ^ k) (loc_of_rem (c mod 10 ^ k) (10 ^ k)) = rna_q c k.
Proof.
  intros Hc Hk. unfold rna_q.
  set (D := 10 ^ k). assert (HD : 0 < D) by (apply Z.pow_pos_nonneg; lia).
  assert (DH : D = 2 * (5 * 10 ^ (k - 1))) by (unfold D; replace k with (Z.succ (k - 1)) at 1 by lia; rewrite Z.pow_succ_r by lia; ring).
  set (h := 5 * 10 ^ (k - 1)) in *. assert (Hh : 0 < h) by (unfold h; assert (0 < 10 ^ (k - 1)) by (apply Z.pow_pos_nonneg; lia); lia).
  pose proof (Z.div_mod c D ltac:(lia)) as DM. pose proof (Z.mod_pos_bound c D HD) as MB.
  set (q := c / D) in *. set (r := c mod D) in *.
  assert (E1 : (c + h) / D = q + (if r + h <? D then 0 else 1)).
  { destruct (Z.ltb_spec (r + h) D).
    - symmetry; apply (Z.div_unique (c + h) D (q + 0) (r + h)); lia.
    - symmetry; apply (Z.div_unique (c + h) D (q + 1) (r + h - D)); lia. }
  rewrite E1. clear E1. clearbody q r h D. clear DM Hc.
  unfold choice, loc_of_rem, round_N, cond_incr.
  destruct (Z.eqb_spec r 0) as [R0|R0].
  - destruct (Z.ltb_spec (r + h) D); lia.
  - destruct (Z.compare_spec (2 * r) D); destruct (Z.ltb_spec (r + h) D); lia.
Qed.

Lemma rna_q_le c k N : 0 <= c -> 1 <= k -> (rna_q c k <= N <-> c < N * 10 ^ k + 5 * 10 ^ (k - 1)).
Proof.
  intros Hc Hk. unfold rna_q.
  set (D := 10 ^ k). assert (HD : 0 < D) by (apply Z.pow_pos_nonneg; lia).
  assert (DH : D = 2 * (5 * 10 ^ (k - 1))) by (unfold D; replace k with (Z.succ (k - 1)) at 1 by lia; rewrite Z.pow_succ_r by lia; ring).
  set (h := 5 * 10 ^ (k - 1)) in *. clearbody h D. clear Hk. split.
  - intros H. destruct (Z_lt_le_dec c (N * D + h)) as [L|L]; [exact L|exfalso].
    assert (N + 1 <= (c + h) / D) by (apply Z.div_le_lower_bound; lia). lia.
  - intros H. assert ((c + h) / D < N + 1) by (apply Z.div_lt_upper_bound; lia). lia.
Qed.

Lemma rna_q_bounds c k : 0 <= c -> 1 <= k -> c / 10 ^ k <= rna_q c k <= c / 10 ^ k + 1.
Proof.
  intros Hc Hk. unfold rna_q.
  set (D := 10 ^ k). assert (HD : 0 < D) by (apply Z.pow_pos_nonneg; lia).
  assert (DH : D = 2 * (5 * 10 ^ (k - 1))) by (unfold D; replace k with (Z.succ (k - 1)) at 1 by lia; rewrite Z.pow_succ_r by lia; ring).
  set (h := 5 * 10 ^ (k - 1)) in *. assert (Hh : 0 < h) by (unfold h; assert (0 < 10 ^ (k - 1)) by (apply Z.pow_pos_nonneg; lia); lia).
  clearbody h D. split.
  - apply Z.div_le_mono; lia.
  - assert ((c + h) / D <= (c + D) / D) by (apply Z.div_le_mono; lia).
    replace (c + D) with (c + 1 * D) in H by ring. rewrite Z.div_add in H by lia. exact H.
Qed.

Definition rninta_mag (C e : Z) : Z := if 0 <=? e then C * 10 ^ e else if 45 <? - e then 0 else rna_q C (- e).

Lemma mag_small_a C q e : 10 ^ (q - 1) <= C < 10 ^ q -> 1 <= q -> q + e <= 9 -> 0 <= rninta_mag C e <= 1000000001.
Proof.
  intros HC Hq Hs. assert (HC0 : 0 < C) by (assert (0 < 10 ^ (q - 1)) by (apply Z.pow_pos_nonneg; lia); lia).
  unfold rninta_mag. destruct (Z.leb_spec 0 e).
  - assert (0 < 10 ^ e) by (apply Z.pow_pos_nonneg; lia).
    assert (10 ^ (q + e) <= 10 ^ 9) by (apply Z.pow_le_mono_r; lia). rewrite Z.pow_add_r in H1 by lia.
    change (10 ^ 9) with 1000000000 in *. nia.
  - destruct (45 <? - e); [lia|]. set (k := - e) in *.
    pose proof (rna_q_bounds C k ltac:(lia) ltac:(lia)) as RB.
    assert (HD : 0 < 10 ^ k) by (apply Z.pow_pos_nonneg; lia).
    assert (0 <= C / 10 ^ k) by (apply Z.div_pos; lia).
    assert (C / 10 ^ k <= 1000000000); [|lia].
    destruct (Z_le_gt_dec q k).
    + assert (10 ^ q <= 10 ^ k) by (apply Z.pow_le_mono_r; lia). rewrite Z.div_small by lia. lia.
    + assert (C / 10 ^ k < 10 ^ (q - k)).
      { apply Z.div_lt_upper_bound; [lia|]. rewrite <- Z.pow_add_r by lia. replace (k + (q - k)) with q by ring. lia. }
      assert (10 ^ (q - k) <= 10 ^ 9) by (apply Z.pow_le_mono_r; unfold k; lia). change (10 ^ 9) with 1000000000 in *. lia.
Qed.

Lemma mag_thresh_a C q e N T : 10 ^ (q - 1) <= C < 10 ^ q -> 1 <= q <= 34 -> q + e = 10 -> 0 <= N ->
  T = N * 10 + 5 ->
  (q <= 11 -> (rninta_mag C e <= N <-> C * 10 ^ (11 - q) < T)) /\
  (12 <= q -> (rninta_mag C e <= N <-> C < T * 10 ^ (q - 11))).
Proof.
  intros HC Hq Hs HN ->. assert (HC0 : 0 < C) by (assert (0 < 10 ^ (q - 1)) by (apply Z.pow_pos_nonneg; lia); lia).
  unfold rninta_mag. split.
  - intros Hq11. destruct (Z.leb_spec 0 e).
    + replace (11 - q) with (e + 1) by lia. rewrite Z.pow_add_r by lia. change (10 ^ 1) with 10.
      set (m := C * 10 ^ e). replace (C * (10 ^ e * 10)) with (m * 10) by (unfold m; ring). clearbody m. lia.
    + assert (e = -1) by lia. subst e. replace (11 - q) with 0 by lia. change (10 ^ 0) with 1. rewrite Z.mul_1_r.
      cbn [Z.opp Z.ltb Z.compare]. change (45 <? 1) with false. cbv iota.
      pose proof (rna_q_le C 1 N ltac:(lia) ltac:(lia)) as RL. change (10 ^ 1) with 10 in RL. change (5 * 10 ^ (1 - 1)) with 5 in RL.
      exact RL.
  - intros Hq12. replace (0 <=? e) with false by lia. replace (45 <? - e) with false by lia.
    pose proof (rna_q_le C (- e) N ltac:(lia) ltac:(lia)) as RL.
    replace (- e) with (q - 10) in * by lia.
    assert (E : (N * 10 + 5) * 10 ^ (q - 11) = N * 10 ^ (q - 10) + 5 * 10 ^ (q - 10 - 1)).
    { replace (q - 10) with (Z.succ (q - 11)) by lia. rewrite Z.pow_succ_r by lia. replace (Z.succ (q - 11) - 1) with (q - 11) by lia. ring. }
    rewrite E. exact RL.
Qed.

Lemma lt128 a1 a0 b1 b0 : 0 <= a0 < 18446744073709551616 -> 0 <= b0 < 18446744073709551616 ->
  ((a1 <? b1) || ((a1 =? b1) && (a0 <? b0))) = (a1 * 18446744073709551616 + a0 <? b1 * 18446744073709551616 + b0).
Proof. intros. lia. Qed.
