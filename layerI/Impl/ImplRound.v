(* Layer I: the rounding core shared by the to-integer and round-to-integral routines (logical path DVI):
   C * 10^(-x) through the 118-bit reciprocals BID_TEN2MK128 (x = 1..34), the shift / mask / truncated-reciprocal tables,
   the midpoint tables.  Table rows are checked against closed forms by kernel computation (34 + 19 + 15 rows).  Axiom-free. *)
From Coq Require Import ZArith Lia Bool List ZifyBool.
From DV Require Import Base Bid BidProofs OpsArith OpsCmp OpsMisc.
From DVI Require Import ImplLib ImplGen ImplCommon ImplMul0 ImplMul ImplRecip.
Import ListNotations.
Open Scope Z_scope.
Ltac dlia := Z.div_mod_to_equations; lia.

Definition P64 := 18446744073709551616.
Definition P128' := 340282366920938463463374607431768211456.
Definition rk (k:Z) : Z := nth (Z.to_nat (k - 1)) T_BID_TEN2MK128_w1 0 * 18446744073709551616 + nth (Z.to_nat (k - 1)) T_BID_TEN2MK128_w0 0.
Definition rs (k:Z) : Z := nth (Z.to_nat (k - 1)) T_BID_SHIFTRIGHT128 0.
Definition rm (k:Z) : Z := nth (Z.to_nat (k - 1)) T_BID_MASKHIGH128 0.
Definition rt (k:Z) : Z := nth (Z.to_nat (k - 1)) T_BID_TEN2MK128TRUNC_w1 0 * 18446744073709551616 + nth (Z.to_nat (k - 1)) T_BID_TEN2MK128TRUNC_w0 0.

(* row k (1..34): words in range; the shift is below 64 exactly for k <= 22; the mask is 2^(s mod 64) - 1; the truncated
   reciprocal is the reciprocal minus one; e = K * 10^k - 2^(128+s) is positive and small enough for every C' <= 2*10^34 *)
Definition round_row_ok (k:Z) : bool :=
  let K := rk k in let s := rs k in let D := 10 ^ k in let e := K * D - 2 ^ (128 + s) in
  (0 <=? nth (Z.to_nat (k - 1)) T_BID_TEN2MK128_w0 0) && (nth (Z.to_nat (k - 1)) T_BID_TEN2MK128_w0 0 <? 18446744073709551616) &&
  (0 <=? nth (Z.to_nat (k - 1)) T_BID_TEN2MK128_w1 0) && (nth (Z.to_nat (k - 1)) T_BID_TEN2MK128_w1 0 <? 18446744073709551616) &&
  (0 <=? nth (Z.to_nat (k - 1)) T_BID_TEN2MK128TRUNC_w0 0) && (nth (Z.to_nat (k - 1)) T_BID_TEN2MK128TRUNC_w0 0 <? 18446744073709551616) &&
  (0 <=? nth (Z.to_nat (k - 1)) T_BID_TEN2MK128TRUNC_w1 0) && (nth (Z.to_nat (k - 1)) T_BID_TEN2MK128TRUNC_w1 0 <? 18446744073709551616) &&
  (0 <=? s) && (s <? 128) && Bool.eqb (s <? 64) (k <=? 22) &&
  (rm k =? 2 ^ (s mod 64) - 1) && (rt k =? K - 1) &&
  (1 <=? e) && ((20000000000000000000000000000000000 / D + 3) * e <? K).
Lemma round_rows_ok : forallb round_row_ok (map Z.of_nat (seq 1 34)) = true.
Proof. vm_compute. reflexivity. Qed.

Lemma in_seq1 k n : 1 <= k <= Z.of_nat n -> In k (map Z.of_nat (seq 1 n)).
Proof.
  intros H. apply in_map_iff. exists (Z.to_nat k). split; [apply Z2Nat.id; lia|]. apply in_seq. lia.
Qed.

Lemma round_row k : 1 <= k <= 34 ->
  let K := rk k in let s := rs k in let e := K * 10 ^ k - 2 ^ (128 + s) in
  0 <= K < 340282366920938463463374607431768211456 /\ 0 <= rt k < 340282366920938463463374607431768211456 /\
  0 <= s < 128 /\ ((s <? 64) = (k <=? 22)) /\ rm k = 2 ^ (s mod 64) - 1 /\ rt k = K - 1 /\
  1 <= e /\ (20000000000000000000000000000000000 / 10 ^ k + 3) * e < K.
Proof.
  intros Hk. pose proof round_rows_ok as A. rewrite forallb_forall in A.
  specialize (A k (in_seq1 k 34 ltac:(change (Z.of_nat 34) with 34; lia))). unfold round_row_ok in A. cbv zeta in A.
  rewrite !andb_true_iff in A. destruct A as [[[[[[[[[[[[[[A1 A2] A3] A4] A5] A6] A7] A8] A9] A10] A11] A12] A13] A14] A15].
  apply Z.leb_le in A1, A3, A5, A7, A9, A14. apply Z.ltb_lt in A2, A4, A6, A8, A10, A15. apply Z.eqb_eq in A12, A13.
  apply Bool.eqb_prop in A11. cbv zeta. unfold rk, rt in *. repeat split; try lia; try assumption.
Qed.

Lemma le128 a1 a0 b1 b0 : 0 <= a0 < 18446744073709551616 -> 0 <= b0 < 18446744073709551616 ->
  ((a1 <? b1) || ((a1 =? b1) && (a0 <=? b0))) = (a1 * 18446744073709551616 + a0 <=? b1 * 18446744073709551616 + b0).
Proof. intros. lia. Qed.

(* the quotient and the exact-division test read off the four words of C' * K (pure part: quot_tests in ImplRecip.v) *)
Lemma round_core k C' p0 p1 p2 p3 : 1 <= k <= 34 -> 0 <= C' <= 20000000000000000000000000000000000 ->
  in_u64 p0 -> in_u64 p1 -> in_u64 p2 -> in_u64 p3 ->
  ((p3 * 18446744073709551616 + p2) * 18446744073709551616 + p1) * 18446744073709551616 + p0 = C' * rk k ->
  let s := rs k in let Q := C' / 10 ^ k in let r := C' mod 10 ^ k in let lo := p1 * 18446744073709551616 + p0 in
  (k <= 22 -> (p3 * 18446744073709551616 + p2) / 2 ^ s = Q /\
     ((p2 mod 2 ^ s =? 0) && (negb (lo =? 0)) && (lo <=? rt k)) = ((r =? 0) && (0 <? Q))) /\
  (23 <= k -> p3 / 2 ^ (s - 64) = Q /\
     ((p3 mod 2 ^ (s - 64) =? 0) && (p2 =? 0) && (negb (lo =? 0)) && (lo <=? rt k)) = ((r =? 0) && (0 <? Q))).
Proof.
  intros Hk HC H0 H1 H2 H3 HP s Q r lo.
  destruct (round_row k Hk) as (RK & RT & RS & RB & RM & RTE & RE1 & RE2). cbv zeta in *. fold s in RS, RB, RM, RE1, RE2.
  assert (HD : 0 < 10 ^ k) by (apply Z.pow_pos_nonneg; lia).
  pose proof (quot_tests (rk k) s (10 ^ k) (rk k * 10 ^ k - 2 ^ (128 + s)) 20000000000000000000000000000000000 C' p0 p1 p2 p3
                HD ltac:(lia) ltac:(ring) RE1 HC RE2 RK H0 H1 H2 H3 HP) as QT.
  cbv zeta in QT. rewrite RTE. destruct QT as [QA QB]. split.
  - intros Hk22. apply QA. destruct (Z.ltb_spec s 64); [lia|]. destruct (Z.leb_spec k 22); [discriminate|lia].
  - intros Hk23. apply QB. destruct (Z.ltb_spec s 64); [|lia]. destruct (Z.leb_spec k 22); [lia|discriminate].
Qed.

(* midpoints 5 * 10^i: BID_MIDPOINT64 (i = 0..18), BID_MIDPOINT128 (i = 19..33) *)
Lemma midpoint64_all : forallb (fun i => nth (Z.to_nat i) T_BID_MIDPOINT64 0 =? 5 * 10 ^ i) (map Z.of_nat (seq 0 19)) = true.
Proof. vm_compute. reflexivity. Qed.
Lemma midpoint128_all : forallb (fun i => (0 <=? nth (Z.to_nat i) T_BID_MIDPOINT128_w0 0) && (nth (Z.to_nat i) T_BID_MIDPOINT128_w0 0 <? 18446744073709551616) &&
    (nth (Z.to_nat i) T_BID_MIDPOINT128_w1 0 * 18446744073709551616 + nth (Z.to_nat i) T_BID_MIDPOINT128_w0 0 =? 5 * 10 ^ (i + 19)))
  (map Z.of_nat (seq 0 15)) = true.
Proof. vm_compute. reflexivity. Qed.
Lemma midpoint64_row i : 0 <= i < 19 -> nth (Z.to_nat i) T_BID_MIDPOINT64 0 = 5 * 10 ^ i.
Proof.
  intros H. pose proof midpoint64_all as A. rewrite forallb_forall in A.
  specialize (A i (in_range_list i 19 ltac:(change (Z.of_nat 19) with 19; lia))). apply Z.eqb_eq in A. exact A.
Qed.
Lemma midpoint128_row i : 0 <= i < 15 ->
  in_u64 (nth (Z.to_nat i) T_BID_MIDPOINT128_w0 0) /\
  nth (Z.to_nat i) T_BID_MIDPOINT128_w1 0 * 18446744073709551616 + nth (Z.to_nat i) T_BID_MIDPOINT128_w0 0 = 5 * 10 ^ (i + 19).
Proof.
  intros H. pose proof midpoint128_all as A. rewrite forallb_forall in A.
  specialize (A i (in_range_list i 15 ltac:(change (Z.of_nat 15) with 15; lia))).
  rewrite !andb_true_iff in A. destruct A as [[A1 A2] A3]. apply Z.leb_le in A1. apply Z.ltb_lt in A2. apply Z.eqb_eq in A3.
  unfold in_u64. split; [lia|exact A3].
Qed.

(* ---------- the common prefix of the to-integer routines: bit length and digit count of the coefficient ---------- *)
From DV Require Import ScaleProofs.
From DVI Require Import ImplTables.

Definition nbits_expr (w0 hi : Z) : Z :=
  let '(_, x_nr_bits) :=
      if hi =? 0
      then let '(tmp1_ui64, x_nr_bits) :=
        if w0 >=? 9007199254740992
        then (f64_bits_of_u64 (w0 / 4294967296),
              wrap_u32 (33 + wrap_u32 ((f64_bits_of_u64 (w0 / 4294967296) / 4503599627370496) mod 2048 - 1023)))
        else (f64_bits_of_u64 w0, wrap_u32 (1 + wrap_u32 ((f64_bits_of_u64 w0 / 4503599627370496) mod 2048 - 1023))) in
        (tmp1_ui64, x_nr_bits)
      else (f64_bits_of_u64 hi, wrap_u32 (65 + wrap_u32 ((f64_bits_of_u64 hi / 4503599627370496) mod 2048 - 1023))) in
  x_nr_bits.

Lemma nbits_spec w0 hi : 0 <= w0 < 18446744073709551616 -> 0 <= hi < 562949953421312 ->
  0 < hi * 18446744073709551616 + w0 -> nbits_expr w0 hi = 1 + Z.log2 (hi * 18446744073709551616 + w0).
Proof.
  intros H0 Hhi HC. unfold nbits_expr. set (C := hi * 18446744073709551616 + w0) in *.
  destruct (hi =? 0) eqn:Hz; [destruct (w0 >=? 9007199254740992) eqn:Big|].
  - assert (X1 : 0 < w0 / 4294967296 < 9007199254740992) by lia.
    rewrite (f64_exp_field _ X1). pose proof (log2_lt_53 _ X1). wrap_ids lia.
    rewrite (log2_div_pow2 w0 32 4294967296) by (try reflexivity; lia). unfold C. replace hi with 0 by lia.
    replace (0 * 18446744073709551616 + w0) with w0 by lia. lia.
  - assert (X1 : 0 < w0 < 9007199254740992) by (unfold C in HC; lia).
    rewrite (f64_exp_field _ X1). pose proof (log2_lt_53 _ X1). wrap_ids lia.
    unfold C. replace hi with 0 by lia. replace (0 * 18446744073709551616 + w0) with w0 by lia. lia.
  - assert (X1 : 0 < hi < 9007199254740992) by lia.
    rewrite (f64_exp_field _ X1). pose proof (log2_lt_53 _ X1). wrap_ids lia.
    unfold C. rewrite log2_hi_lo by lia. lia.
Qed.

(* the digit count read from BID_NR_DIGITS at index nb - 1, nb = 1 + floor(log2 C) *)
Definition qdigits_expr (w0 hi nb : Z) : Z :=
  if wrap_i32 (nth (Z.to_nat (wrap_u32 (nb - 1))) T_BID_NR_DIGITS_digits 0) =? 0
  then if (hi >? nth (Z.to_nat (wrap_u32 (nb - 1))) T_BID_NR_DIGITS_threshold_hi 0)
          || (hi =? nth (Z.to_nat (wrap_u32 (nb - 1))) T_BID_NR_DIGITS_threshold_hi 0) &&
             (w0 >=? nth (Z.to_nat (wrap_u32 (nb - 1))) T_BID_NR_DIGITS_threshold_lo 0)
       then wrap_i32 (wrap_i32 (nth (Z.to_nat (wrap_u32 (nb - 1))) T_BID_NR_DIGITS_digits1 0) + 1)
       else wrap_i32 (nth (Z.to_nat (wrap_u32 (nb - 1))) T_BID_NR_DIGITS_digits1 0)
  else wrap_i32 (nth (Z.to_nat (wrap_u32 (nb - 1))) T_BID_NR_DIGITS_digits 0).

Lemma qdigits_spec w0 hi : 0 <= w0 < 18446744073709551616 -> 0 <= hi < 562949953421312 ->
  0 < hi * 18446744073709551616 + w0 < 10000000000000000000000000000000000 ->
  let C := hi * 18446744073709551616 + w0 in
  qdigits_expr w0 hi (1 + Z.log2 C) = ndigits C /\ 1 <= ndigits C <= 34 /\ 1 <= 1 + Z.log2 C <= 113.
Proof.
  intros H0 Hhi HC C. unfold qdigits_expr. fold C in HC.
  set (n := 1 + Z.log2 C) in *.
  assert (HCn : 2 ^ (n - 1) <= C < 2 ^ n).
  { replace (n - 1) with (Z.log2 C) by (unfold n; lia). unfold n. rewrite Z.add_comm. apply log2_bounds. lia. }
  assert (Hn : 1 <= n <= 113).
  { split; [pose proof (Z.log2_nonneg C); unfold n; lia|].
    assert (Z.log2 C < 113) by (apply Z.log2_lt_pow2; [lia|]; change (2 ^ 113) with 10384593717069655257060992658440192; lia).
    unfold n; lia. }
  rewrite (wrap_u32_id (n - 1)) by (unfold in_u32; lia).
  change (nth (Z.to_nat (n - 1)) T_BID_NR_DIGITS_digits 0) with (nrd_d n).
  change (nth (Z.to_nat (n - 1)) T_BID_NR_DIGITS_digits1 0) with (nrd_d1 n).
  change (nth (Z.to_nat (n - 1)) T_BID_NR_DIGITS_threshold_hi 0) with (nrd_hi n).
  change (nth (Z.to_nat (n - 1)) T_BID_NR_DIGITS_threshold_lo 0) with (nrd_lo n).
  destruct (nr_digits_spec n C Hn HCn) as (D1 & D2 & D3 & D4 & D5). unfold in_u64 in D3, D4.
  assert (Hq : 1 <= ndigits C <= 34).
  { unfold ndigits. apply digits34. change (10 ^ 34) with 10000000000000000000000000000000000. exact HC. }
  split; [|split; [exact Hq|exact Hn]].
  rewrite D5. clear HCn D5 Hq. clearbody n. wrap_ids lia.
  destruct (nrd_d n =? 0); [|reflexivity].
  destruct (nrd_hi n * 18446744073709551616 + nrd_lo n <=? C) eqn:?;
  destruct ((hi >? nrd_hi n) || (hi =? nrd_hi n) && (w0 >=? nrd_lo n)) eqn:?; wrap_ids lia; unfold C in *; lia.
Qed.

(* ---------- the model's round-to-nearest-even integer quotient in the form the code computes it ---------- *)
From Flocq Require Import Core.Core Calc.Bracket Calc.Round.

Lemma digits_pow10 c : 0 < c -> 10 ^ (ndigits c - 1) <= c < 10 ^ ndigits c.
Proof. intros Hc. unfold ndigits. pose proof (Zdigits_correct radix10 c) as H. rewrite Z.abs_eq in H by lia. exact H. Qed.

(* RNE of c / 10^k (k >= 1): add half, divide, and step back from an odd quotient when the division was exact *)
Definition rne_q (c k : Z) : Z :=
  let D := 10 ^ k in let c' := c + 5 * 10 ^ (k - 1) in let Q := c' / D in
  if (c' mod D =? 0) && Z.odd Q then Q - 1 else Q.

Lemma rne_choice s c k : 0 <= c -> 1 <= k ->
  choice RNE s (c / 10 ^ k) (loc_of_rem (c mod 10 ^ k) (10 ^ k)) = rne_q c k.
Proof.
  intros Hc Hk. unfold rne_q. cbv zeta.
  set (D := 10 ^ k). assert (HD : 0 < D) by (apply Z.pow_pos_nonneg; lia).
  assert (DH : D = 2 * (5 * 10 ^ (k - 1))) by (unfold D; replace k with (Z.succ (k - 1)) at 1 by lia; rewrite Z.pow_succ_r by lia; ring).
  set (h := 5 * 10 ^ (k - 1)) in *. assert (Hh : 0 < h) by (unfold h; assert (0 < 10 ^ (k - 1)) by (apply Z.pow_pos_nonneg; lia); lia).
  pose proof (Z.div_mod c D ltac:(lia)) as DM. pose proof (Z.mod_pos_bound c D HD) as MB.
  set (q := c / D) in *. set (r := c mod D) in *.
  assert (Hq : 0 <= q) by (apply Z.div_pos; lia).
  assert (E1 : (c + h) / D = q + (if r + h <? D then 0 else 1) /\ (c + h) mod D = (if r + h <? D then r + h else r + h - D)).
  { destruct (Z.ltb_spec (r + h) D).
    - split; [symmetry; apply (Z.div_unique (c + h) D (q + 0) (r + h)); lia|symmetry; apply (Z.mod_unique (c + h) D (q + 0) (r + h)); lia].
    - split; [symmetry; apply (Z.div_unique (c + h) D (q + 1) (r + h - D)); lia|symmetry; apply (Z.mod_unique (c + h) D (q + 1) (r + h - D)); lia]. }
  destruct E1 as [E1 E2]. rewrite E1, E2. clear E1 E2. clearbody q r h D. clear DM Hc.
  assert (ODD : Z.odd (q + 1) = Z.even q) by (rewrite Z.add_1_r, Z.odd_succ; reflexivity).
  unfold choice, loc_of_rem, round_N, cond_incr.
  destruct (Z.eqb_spec r 0) as [R0|R0].
  - cbn [is_exact negb]. destruct (Z.ltb_spec (r + h) D); [|lia]. destruct (Z.eqb_spec (r + h) 0); [lia|]. cbn [andb]. lia.
  - destruct (Z.compare_spec (2 * r) D) as [CE|CL|CG].
    + destruct (Z.ltb_spec (r + h) D); [lia|]. replace (r + h - D) with 0 by lia. cbn [Z.eqb andb].
      rewrite ODD. rewrite <- Z.negb_odd. destruct (Z.odd q); cbn [negb]; lia.
    + destruct (Z.ltb_spec (r + h) D); [|lia]. destruct (Z.eqb_spec (r + h) 0); [lia|]. cbn [andb]. lia.
    + destruct (Z.ltb_spec (r + h) D); [lia|]. destruct (Z.eqb_spec (r + h - D) 0); [lia|]. cbn [andb]. lia.
Qed.

Lemma rne_q_split c k : 0 <= c -> 1 <= k ->
  let D := 10 ^ k in let h := 5 * 10 ^ (k - 1) in let Q := (c + h) / D in let r' := (c + h) mod D in
  D = 2 * h /\ 0 < h /\ c + h = Q * D + r' /\ 0 <= r' < D /\ 0 <= Q /\
  rne_q c k = (if (r' =? 0) && Z.odd Q then Q - 1 else Q).
Proof.
  intros Hc Hk D h Q r'.
  assert (HD : 0 < D) by (apply Z.pow_pos_nonneg; lia).
  assert (DH : D = 2 * h) by (unfold D, h; replace k with (Z.succ (k - 1)) at 1 by lia; rewrite Z.pow_succ_r by lia; ring).
  assert (Hh : 0 < h) by (unfold h; assert (0 < 10 ^ (k - 1)) by (apply Z.pow_pos_nonneg; lia); lia).
  pose proof (Z.div_mod (c + h) D ltac:(lia)) as DM. pose proof (Z.mod_pos_bound (c + h) D HD) as MB.
  assert (HQ : 0 <= Q) by (apply Z.div_pos; lia).
  repeat split; try lia.
Qed.

(* threshold form of "RNE(c / 10^k) <= N" *)
Lemma rne_q_le c k N : 0 <= c -> 1 <= k -> 0 <= N ->
  (rne_q c k <= N <-> (if Z.even N then c <= N * 10 ^ k + 5 * 10 ^ (k - 1) else c < N * 10 ^ k + 5 * 10 ^ (k - 1))).
Proof.
  intros Hc Hk HN. destruct (rne_q_split c k Hc Hk) as (DH & Hh & DM & MB & HQ & ->). cbv zeta in *.
  set (D := 10 ^ k) in *. set (h := 5 * 10 ^ (k - 1)) in *. set (Q := (c + h) / D) in *. set (r' := (c + h) mod D) in *.
  clearbody Q r' D h. clear Hk.
  assert (EO : Z.even N = negb (Z.odd N)) by (symmetry; apply Z.negb_odd).
  destruct (Z.odd N) eqn:ON; rewrite EO; cbn [negb].
  - (* N odd *)
    split.
    + intros H. destruct (Z_lt_le_dec c (N * D + h)) as [L|L]; [exact L|exfalso].
      assert (N + 1 <= Q) by nia.
      destruct ((r' =? 0) && Z.odd Q) eqn:T; [|lia].
      apply andb_true_iff in T. destruct T as [_ OQ].
      assert (Q <> N + 1).
      { intros ->. rewrite Z.add_1_r, Z.odd_succ, <- Z.negb_odd, ON in OQ. discriminate. }
      lia.
    + intros H. assert (Q <= N) by nia. destruct ((r' =? 0) && Z.odd Q); lia.
  - (* N even *)
    split.
    + intros H. destruct (Z_le_gt_dec c (N * D + h)) as [L|L]; [exact L|exfalso].
      assert (HQ1 : N + 1 <= Q) by nia.
      destruct ((r' =? 0) && Z.odd Q) eqn:T; [|lia].
      apply andb_true_iff in T. destruct T as [R0 OQ]. apply Z.eqb_eq in R0.
      assert (Q <> N + 1) by (intros ->; nia). lia.
    + intros H. assert (HQ1 : Q <= N + 1) by nia.
      destruct (Z.eq_dec Q (N + 1)) as [EQ|NE].
      * assert (r' = 0) by nia. subst r'. cbn [Z.eqb andb]. rewrite EQ, Z.add_1_r, Z.odd_succ, <- Z.negb_odd, ON. cbn [negb]. lia.
      * destruct ((r' =? 0) && Z.odd Q); lia.
Qed.

Lemma rne_q_bounds c k : 0 <= c -> 1 <= k -> c / 10 ^ k <= rne_q c k <= c / 10 ^ k + 1.
Proof.
  intros Hc Hk. destruct (rne_q_split c k Hc Hk) as (DH & Hh & DM & MB & HQ & ->). cbv zeta in *.
  set (D := 10 ^ k) in *. set (h := 5 * 10 ^ (k - 1)) in *. set (Q := (c + h) / D) in *. set (r' := (c + h) mod D) in *.
  assert (HD : 0 < D) by lia.
  pose proof (Z.div_mod c D ltac:(lia)) as DM2. pose proof (Z.mod_pos_bound c D HD) as MB2.
  set (q := c / D) in *. set (r := c mod D) in *. clearbody Q r' q r D h. clear Hk.
  destruct ((r' =? 0) && Z.odd Q) eqn:T.
  - apply andb_true_iff in T. destruct T as [R0 _]. apply Z.eqb_eq in R0. subst r'. nia.
  - nia.
Qed.
