(* Layer I, group NA: ok_bid128_nextafter = true for ALL operand pairs and status words (every ok_ of the five callees holds on
   the arguments they are called with; shared file, see ImplNext2c.v). Axiom-free. *)
From Coq Require Import ZArith Lia Bool List ZifyBool.
From DV Require Import Base Bid BidProofs OpsArith OpsCmp OpsMisc OpsConv.
From DVI Require Import ImplLib ImplGen ImplCommon.
Import ListNotations.
Open Scope Z_scope.
Ltac unfold_helpers := unfold i_d128_Default_default, i_d128_new.
From DVI Require Import ImplTables ImplNext ImplMul0 ImplMul ImplOrder ImplCmp ImplCmp2 ImplNext2a ImplNext2b ImplNext2.
Lemma in_u64_mod63 x : in_u64 (x mod 9223372036854775808).
Proof. unfold in_u64. pose proof (Z.mod_pos_bound x 9223372036854775808 eq_refl). lia. Qed.
Ltac nx_side :=
  lazymatch goal with
  | |- in_u32 _ => first [assumption | solve [u32_tac]]
  | |- in_u64 (_ mod 9223372036854775808) => apply in_u64_mod63
  | |- in_u64 _ => first [assumption | solve [u64_tac]]
  end.
Ltac ok_call L f :=
  match goal with |- context [f ?a ?b ?c ?d ?s] =>
    rewrite (L a b c d s) by nx_side end; cbv beta iota.
Ltac v_call L f :=
  match goal with |- context [f ?a ?b ?c ?d ?s] =>
    rewrite (L a b c d s) by nx_side end; unfold cmp_res at 1; cbv beta iota.
Ltac ok_step3 up OKL V okf f x0 x1 st H0 H1 Hst :=
  rewrite (OKL x0 x1 st H0 H1 Hst); cbv beta iota;
  let SPU := fresh "SPU" in pose proof (V x0 x1 st H0 H1 Hst) as SPU;
  let r0 := fresh "r0" in let r1 := fresh "r1" in let st2 := fresh "st2" in
  destruct (f x0 x1 st) as [[r0 r1] st2]; cbv beta iota;
  let Q := fresh "Q" in pose proof (step_spec_ranges up x0 x1 st r0 r1 st2 Hst SPU) as Q; destruct Q as (? & ? & ?).
Ltac ok_tail :=
  word_norm lia;
  goal_term ltac:(fun t => let h := spine_head t in
    lazymatch h with if ?c then _ else _ => let E := fresh "E" in destruct c eqn:E; cbv beta iota end);
  ok_call OK_bid128_quiet_greater ok_bid128_quiet_greater; v_call V_bid128_quiet_greater i_bid128_quiet_greater;
  ok_call OK_bid128_quiet_not_equal ok_bid128_quiet_not_equal; v_call V_bid128_quiet_not_equal i_bid128_quiet_not_equal;
  step_ifs; reflexivity.

Theorem OK_bid128_nextafter x0 x1 y0 y1 st : in_u64 x0 -> in_u64 x1 -> in_u64 y0 -> in_u64 y1 -> in_u32 st ->
  ok_bid128_nextafter x0 x1 y0 y1 st = true.
Proof.
  intros H0 H1 G0 G1 Hst. unfold ok_bid128_nextafter. unfold_helpers. red_lets.
  pose proof H0 as H0'. pose proof H1 as H1'. pose proof G0 as G0'. pose proof G1 as G1'. unfold in_u64 in H0', H1', G0', G1'.
  lazymatch goal with |- (if ?c then ?A else ?B) = true => set (B2 := B) end.
  fold_lor. word_norm lia. mask_tests. pose proof (g5W_range x1) as R. pose proof (g5W_range y1) as Ry.
  match goal with |- context [match (if g5W x1 =? 30 then (true, ?u, 0) else (true, x1, x0)) with pair _ _ => _ end] =>
    set (p := if g5W x1 =? 30 then (true, u, 0) else (true, x1, x0)) end.
  match goal with |- context [match (if g5W y1 =? 30 then (true, ?u, 0) else (true, y1, y0)) with pair _ _ => _ end] =>
    set (q := if g5W y1 =? 30 then (true, u, 0) else (true, y1, y0)) end.
  match goal with |- context [?M] => lazymatch M with match p with pair _ _ => _ end =>
    let Pf := eval pattern p, q in M in
    lazymatch Pf with ?f _ _ =>
      assert (HK : forall p' q' xc1 xc0 yc1 yc0, p' = (true, xc1, xc0) -> q' = (true, yc1, yc0) ->
                   in_u64 xc0 -> in_u64 xc1 -> in_u64 yc0 -> in_u64 yc1 -> f p' q' = true) end end end.
  { intros p' q' xc1 xc0 yc1 yc0 -> -> X0 X1 Y0 Y1. clear p q B2. cbv beta iota.
    pose proof X0 as X0'. pose proof X1 as X1'. pose proof Y1 as Y1'. unfold in_u64 in X0', X1', Y1'.
    word_norm lia.
    goal_term ltac:(fun t => let h := spine_head t in
      assert (CX : exists a1 a0, h = (true, a1, a0) /\ in_u64 a0 /\ in_u64 a1) by
        (split_ifs_eq; cbv beta iota; do 2 eexists; (split; [reflexivity|split; u64_tac]));
      destruct CX as (a1 & a0 & CX & A0 & A1); rewrite CX; clear CX); cbv beta iota.
    ok_call OK_bid128_quiet_equal ok_bid128_quiet_equal. v_call V_bid128_quiet_equal i_bid128_quiet_equal.
    ok_call OK_bid128_quiet_greater ok_bid128_quiet_greater. v_call V_bid128_quiet_greater i_bid128_quiet_greater.
    step_if E1; [ok_tail|].
    step_if E2.
    - ok_step3 false OK_bid128_nextdown V_bid128_nextdown ok_bid128_nextdown i_bid128_nextdown x0 x1 st H0 H1 Hst. ok_tail.
    - ok_step3 true OK_bid128_nextup V_bid128_nextup ok_bid128_nextup i_bid128_nextup x0 x1 st H0 H1 Hst. ok_tail. }
  step_if SP.
  - step_if A; [step_ifs; reflexivity|]. step_if AY; [step_ifs; reflexivity|].
    assert (EP : exists xc1 xc0, p = (true, xc1, xc0) /\ in_u64 xc0 /\ in_u64 xc1)
      by (unfold p; destruct (g5W x1 =? 30); do 2 eexists; (split; [reflexivity|split; u64_tac])).
    assert (EQ : exists yc1 yc0, q = (true, yc1, yc0) /\ in_u64 yc0 /\ in_u64 yc1)
      by (unfold q; destruct (g5W y1 =? 30); do 2 eexists; (split; [reflexivity|split; u64_tac])).
    destruct EP as (xc1 & xc0 & EP & ? & ?). destruct EQ as (yc1 & yc0 & EQ & ? & ?).
    apply (HK p q xc1 xc0 yc1 yc0 EP EQ); assumption.
  - unfold B2. apply (HK (true, x1, x0) (true, y1, y0) x1 x0 y1 y0); try reflexivity; assumption.
Qed.

Print Assumptions OK_bid128_nextafter.
