(* Layer I, groups K and M (ImplCmp2.v): bid128_quiet_equal / bid128_quiet_not_equal against OpsCmp.m_cmp (predicates 0 and 7:
   result bit and status word), and bid128_minnum / maxnum / minnum_mag / maxnum_mag against the acceptance list
   OpsCmp.m_minmax (the returned words are one of the model's outcomes, the status word is or-ed with that outcome's flag).
   For ALL operand words and every incoming status word; ok_ = every BID_TEN2K64/128 index in range. Same conventions as
   ImplProofs.v / ImplCmpProofs.v: one block per routine, compiled under the header of ImplProofs.v (copied below so that
   this file is a valid Coq file by itself); every block imports the shared files it needs. Axiom-free. *)
From Coq Require Import ZArith Lia Bool List ZifyBool.
From DV Require Import Base Bid BidProofs OpsArith OpsCmp OpsMisc OpsConv.
From DVI Require Import ImplLib ImplGen ImplCommon.
Import ListNotations.
Open Scope Z_scope.
Ltac unfold_helpers := unfold i_d128_Default_default, i_d128_new.
(* HEADER END *)

(* BEGIN bid128_quiet_equal *)
From DVI Require Import ImplMul0 ImplMul ImplOrder ImplCmp ImplCmp2.
Lemma OK_bid128_quiet_equal x0 x1 y0 y1 st : in_u64 x0 -> in_u64 x1 -> in_u64 y0 -> in_u64 y1 -> in_u32 st ->
  ok_bid128_quiet_equal x0 x1 y0 y1 st = true.
Proof. intros Hx0 Hx1 Hy0 Hy1 Hst. unfold ok_bid128_quiet_equal. unfold i_swap_i32, i_swap_u64. cmp_ok x1 y1. Qed.
Lemma V_bid128_quiet_equal x0 x1 y0 y1 st : in_u64 x0 -> in_u64 x1 -> in_u64 y0 -> in_u64 y1 -> in_u32 st ->
  i_bid128_quiet_equal x0 x1 y0 y1 st = cmp_res 0 (pat x0 x1) (pat y0 y1) st.
Proof.
  intros Hx0 Hx1 Hy0 Hy1 Hst. unfold i_bid128_quiet_equal. unfold i_swap_i32, i_swap_u64.
  cmp_open x0 x1 y0 y1 st 0. cmp_walk2 x1 y1. all: cmp_leaf2.
Qed.
Theorem I_bid128_quiet_equal x0 x1 y0 y1 st : in_u64 x0 -> in_u64 x1 -> in_u64 y0 -> in_u64 y1 -> in_u32 st ->
  let '(r, st') := i_bid128_quiet_equal x0 x1 y0 y1 st in
  ok_bid128_quiet_equal x0 x1 y0 y1 st = true /\
  exists fl, m_cmp (pat x0 x1) (pat y0 y1) 0 = [([b2z r], fl)] /\ st' = Z.lor st fl.
Proof.
  intros Hx0 Hx1 Hy0 Hy1 Hst.
  apply (cmp_res_thm 0 (pat x0 x1) (pat y0 y1) st); [apply OK_bid128_quiet_equal|apply V_bid128_quiet_equal]; assumption.
Qed.
Print Assumptions I_bid128_quiet_equal.
(* END bid128_quiet_equal *)

(* BEGIN bid128_quiet_not_equal *)
From DVI Require Import ImplMul0 ImplMul ImplOrder ImplCmp ImplCmp2.
Lemma OK_bid128_quiet_not_equal x0 x1 y0 y1 st : in_u64 x0 -> in_u64 x1 -> in_u64 y0 -> in_u64 y1 -> in_u32 st ->
  ok_bid128_quiet_not_equal x0 x1 y0 y1 st = true.
Proof. intros Hx0 Hx1 Hy0 Hy1 Hst. unfold ok_bid128_quiet_not_equal. unfold i_swap_i32, i_swap_u64. cmp_ok x1 y1. Qed.
Lemma V_bid128_quiet_not_equal x0 x1 y0 y1 st : in_u64 x0 -> in_u64 x1 -> in_u64 y0 -> in_u64 y1 -> in_u32 st ->
  i_bid128_quiet_not_equal x0 x1 y0 y1 st = cmp_res 7 (pat x0 x1) (pat y0 y1) st.
Proof.
  intros Hx0 Hx1 Hy0 Hy1 Hst. unfold i_bid128_quiet_not_equal. unfold i_swap_i32, i_swap_u64.
  cmp_open x0 x1 y0 y1 st 7. cmp_walk2 x1 y1. all: cmp_leaf2.
Qed.
Theorem I_bid128_quiet_not_equal x0 x1 y0 y1 st : in_u64 x0 -> in_u64 x1 -> in_u64 y0 -> in_u64 y1 -> in_u32 st ->
  let '(r, st') := i_bid128_quiet_not_equal x0 x1 y0 y1 st in
  ok_bid128_quiet_not_equal x0 x1 y0 y1 st = true /\
  exists fl, m_cmp (pat x0 x1) (pat y0 y1) 7 = [([b2z r], fl)] /\ st' = Z.lor st fl.
Proof.
  intros Hx0 Hx1 Hy0 Hy1 Hst.
  apply (cmp_res_thm 7 (pat x0 x1) (pat y0 y1) st); [apply OK_bid128_quiet_not_equal|apply V_bid128_quiet_not_equal]; assumption.
Qed.
Print Assumptions I_bid128_quiet_not_equal.
(* END bid128_quiet_not_equal *)

(* BEGIN bid128_minnum *)
From DVI Require Import ImplMul0 ImplMul ImplOrder ImplCmp ImplCmp2.
Lemma OK_bid128_minnum x0 x1 y0 y1 st : in_u64 x0 -> in_u64 x1 -> in_u64 y0 -> in_u64 y1 -> in_u32 st ->
  ok_bid128_minnum x0 x1 y0 y1 st = true.
Proof. intros Hx0 Hx1 Hy0 Hy1 Hst. unfold ok_bid128_minnum. mm_ok. Qed.
Lemma V_bid128_minnum x0 x1 y0 y1 st : in_u64 x0 -> in_u64 x1 -> in_u64 y0 -> in_u64 y1 -> in_u32 st ->
  mm_spec MinNum st (pat x0 x1) (pat y0 y1) (i_bid128_minnum x0 x1 y0 y1 st).
Proof.
  intros Hx0 Hx1 Hy0 Hy1 Hst. unfold i_bid128_minnum. mm_open x0 x1 y0 y1. all: mm_leaf.
Qed.
Theorem I_bid128_minnum x0 x1 y0 y1 st : in_u64 x0 -> in_u64 x1 -> in_u64 y0 -> in_u64 y1 -> in_u32 st ->
  let '(r0, r1, st') := i_bid128_minnum x0 x1 y0 y1 st in
  ok_bid128_minnum x0 x1 y0 y1 st = true /\ in_u64 r0 /\ in_u64 r1 /\
  exists fl, In ([pat r0 r1], fl) (m_minmax MinNum (pat x0 x1) (pat y0 y1)) /\ st' = Z.lor st fl.
Proof.
  intros Hx0 Hx1 Hy0 Hy1 Hst.
  pose proof (V_bid128_minnum x0 x1 y0 y1 st Hx0 Hx1 Hy0 Hy1 Hst) as V. unfold mm_spec in V.
  destruct (i_bid128_minnum x0 x1 y0 y1 st) as [[r0 r1] st']. split; [apply OK_bid128_minnum; assumption|exact V].
Qed.
Print Assumptions I_bid128_minnum.
(* END bid128_minnum *)

(* BEGIN bid128_maxnum *)
From DVI Require Import ImplMul0 ImplMul ImplOrder ImplCmp ImplCmp2.
Lemma OK_bid128_maxnum x0 x1 y0 y1 st : in_u64 x0 -> in_u64 x1 -> in_u64 y0 -> in_u64 y1 -> in_u32 st ->
  ok_bid128_maxnum x0 x1 y0 y1 st = true.
Proof. intros Hx0 Hx1 Hy0 Hy1 Hst. unfold ok_bid128_maxnum. mm_ok. Qed.
Lemma V_bid128_maxnum x0 x1 y0 y1 st : in_u64 x0 -> in_u64 x1 -> in_u64 y0 -> in_u64 y1 -> in_u32 st ->
  mm_spec MaxNum st (pat x0 x1) (pat y0 y1) (i_bid128_maxnum x0 x1 y0 y1 st).
Proof.
  intros Hx0 Hx1 Hy0 Hy1 Hst. unfold i_bid128_maxnum. mm_open x0 x1 y0 y1. all: mm_leaf.
Qed.
Theorem I_bid128_maxnum x0 x1 y0 y1 st : in_u64 x0 -> in_u64 x1 -> in_u64 y0 -> in_u64 y1 -> in_u32 st ->
  let '(r0, r1, st') := i_bid128_maxnum x0 x1 y0 y1 st in
  ok_bid128_maxnum x0 x1 y0 y1 st = true /\ in_u64 r0 /\ in_u64 r1 /\
  exists fl, In ([pat r0 r1], fl) (m_minmax MaxNum (pat x0 x1) (pat y0 y1)) /\ st' = Z.lor st fl.
Proof.
  intros Hx0 Hx1 Hy0 Hy1 Hst.
  pose proof (V_bid128_maxnum x0 x1 y0 y1 st Hx0 Hx1 Hy0 Hy1 Hst) as V. unfold mm_spec in V.
  destruct (i_bid128_maxnum x0 x1 y0 y1 st) as [[r0 r1] st']. split; [apply OK_bid128_maxnum; assumption|exact V].
Qed.
Print Assumptions I_bid128_maxnum.
(* END bid128_maxnum *)

(* BEGIN bid128_minnum_mag *)
From DVI Require Import ImplMul0 ImplMul ImplOrder ImplCmp ImplCmp2.
Lemma OK_bid128_minnum_mag x0 x1 y0 y1 st : in_u64 x0 -> in_u64 x1 -> in_u64 y0 -> in_u64 y1 -> in_u32 st ->
  ok_bid128_minnum_mag x0 x1 y0 y1 st = true.
Proof. intros Hx0 Hx1 Hy0 Hy1 Hst. unfold ok_bid128_minnum_mag. mm_ok. Qed.
Lemma V_bid128_minnum_mag x0 x1 y0 y1 st : in_u64 x0 -> in_u64 x1 -> in_u64 y0 -> in_u64 y1 -> in_u32 st ->
  mm_spec MinMag st (pat x0 x1) (pat y0 y1) (i_bid128_minnum_mag x0 x1 y0 y1 st).
Proof.
  intros Hx0 Hx1 Hy0 Hy1 Hst. unfold i_bid128_minnum_mag. mm_open x0 x1 y0 y1. all: mm_leaf.
Qed.
Theorem I_bid128_minnum_mag x0 x1 y0 y1 st : in_u64 x0 -> in_u64 x1 -> in_u64 y0 -> in_u64 y1 -> in_u32 st ->
  let '(r0, r1, st') := i_bid128_minnum_mag x0 x1 y0 y1 st in
  ok_bid128_minnum_mag x0 x1 y0 y1 st = true /\ in_u64 r0 /\ in_u64 r1 /\
  exists fl, In ([pat r0 r1], fl) (m_minmax MinMag (pat x0 x1) (pat y0 y1)) /\ st' = Z.lor st fl.
Proof.
  intros Hx0 Hx1 Hy0 Hy1 Hst.
  pose proof (V_bid128_minnum_mag x0 x1 y0 y1 st Hx0 Hx1 Hy0 Hy1 Hst) as V. unfold mm_spec in V.
  destruct (i_bid128_minnum_mag x0 x1 y0 y1 st) as [[r0 r1] st']. split; [apply OK_bid128_minnum_mag; assumption|exact V].
Qed.
Print Assumptions I_bid128_minnum_mag.
(* END bid128_minnum_mag *)

(* BEGIN bid128_maxnum_mag *)
From DVI Require Import ImplMul0 ImplMul ImplOrder ImplCmp ImplCmp2.
Lemma OK_bid128_maxnum_mag x0 x1 y0 y1 st : in_u64 x0 -> in_u64 x1 -> in_u64 y0 -> in_u64 y1 -> in_u32 st ->
  ok_bid128_maxnum_mag x0 x1 y0 y1 st = true.
Proof. intros Hx0 Hx1 Hy0 Hy1 Hst. unfold ok_bid128_maxnum_mag. mm_ok. Qed.
Lemma V_bid128_maxnum_mag x0 x1 y0 y1 st : in_u64 x0 -> in_u64 x1 -> in_u64 y0 -> in_u64 y1 -> in_u32 st ->
  mm_spec MaxMag st (pat x0 x1) (pat y0 y1) (i_bid128_maxnum_mag x0 x1 y0 y1 st).
Proof.
  intros Hx0 Hx1 Hy0 Hy1 Hst. unfold i_bid128_maxnum_mag. mm_open x0 x1 y0 y1. all: mm_leaf.
Qed.
Theorem I_bid128_maxnum_mag x0 x1 y0 y1 st : in_u64 x0 -> in_u64 x1 -> in_u64 y0 -> in_u64 y1 -> in_u32 st ->
  let '(r0, r1, st') := i_bid128_maxnum_mag x0 x1 y0 y1 st in
  ok_bid128_maxnum_mag x0 x1 y0 y1 st = true /\ in_u64 r0 /\ in_u64 r1 /\
  exists fl, In ([pat r0 r1], fl) (m_minmax MaxMag (pat x0 x1) (pat y0 y1)) /\ st' = Z.lor st fl.
Proof.
  intros Hx0 Hx1 Hy0 Hy1 Hst.
  pose proof (V_bid128_maxnum_mag x0 x1 y0 y1 st Hx0 Hx1 Hy0 Hy1 Hst) as V. unfold mm_spec in V.
  destruct (i_bid128_maxnum_mag x0 x1 y0 y1 st) as [[r0 r1] st']. split; [apply OK_bid128_maxnum_mag; assumption|exact V].
Qed.
Print Assumptions I_bid128_maxnum_mag.
(* END bid128_maxnum_mag *)
