(* Layer I, group NA: V_ / OK_ of bid128_nextup and bid128_nextdown as a shared file (the scripts of the blocks of
   ImplNextProofs.v, unchanged), for the block of bid128_nextafter, which calls both routines. Axiom-free. *)
From Coq Require Import ZArith Lia Bool List ZifyBool.
From DV Require Import Base Bid BidProofs OpsArith OpsCmp OpsMisc OpsConv.
From DVI Require Import ImplLib ImplGen ImplCommon.
Import ListNotations.
Open Scope Z_scope.
Ltac unfold_helpers := unfold i_d128_Default_default, i_d128_new.
From DVI Require Import ImplTables ImplNext.
(* bid128_nextup completely: for every 128-bit operand pattern (NaN with payload canonicalisation, infinities, zeros and
   non-canonical encodings, +MAXFP, -MINFP, and the general case: digit count through the f64 idiom + BID_NR_DIGITS,
   zero padding of the coefficient to 34 digits or down to the least exponent by a BID_TEN2K64 / BID_TEN2K128 multiply,
   +-1 with the decade adjustments) and every incoming status word, the generated code never fails (ok_: every
   BID_NR_DIGITS / BID_TEN2K64 / BID_TEN2K128 index in range, every `as f64` argument below 2^53) and returns the model's
   single outcome: result words = the pattern of m_next_up, status word = incoming word | the flags of that outcome
   (invalid for a signaling NaN, nothing otherwise). *)
Theorem V_bid128_nextup x0 x1 st : in_u64 x0 -> in_u64 x1 -> in_u32 st ->
  next_up_spec x0 x1 st (i_bid128_nextup x0 x1 st).
Proof.
  intros H0 H1 Hst. unfold i_bid128_nextup. unfold_helpers. red_lets.
  pose proof H0 as H0'. pose proof H1 as H1'. unfold in_u64 in H0', H1'.
  word_norm lia. mask_tests. pose proof (g5W_range x1) as R.
  step_if B.
  { (* NaN or infinity *)
    step_if A.
    - step_if EP; word_norm lia; step_if ES; nan_leaf nu_nan.
    - step_if SG; (apply nu_inf; [assumption|assumption|lia|]; unfold sgZ; rewrite SG; reflexivity). }
  step_if C24. { apply nu_zero; [assumption|assumption|lia|lia]. }
  step_if NC. { apply nu_zero; [assumption|assumption|lia|]. unfold hiW, T34. lia. }
  step_if Z0. { apply nu_zero; [assumption|assumption|lia|]. unfold hiW, T34. lia. }
  step_if MX. { literal_leaf next_up_spec. }
  step_if MN. { literal_leaf next_up_spec. }
  set (hi := x1 mod 562949953421312) in *.
  assert (Hhi : 0 <= hi < 562949953421312) by (apply Z.mod_pos_bound; reflexivity).
  set (C := hi * 18446744073709551616 + x0).
  assert (HC : 0 < C < 10000000000000000000000000000000000) by (unfold C; lia).
  word_norm lia.
  nbits_stage x0 hi C.
  digits_stage x0 hi C.
  set (be := (x1 / 562949953421312) mod 16384) in *.
  assert (Hbe : 0 <= be <= 12287) by (unfold be, g5W in *; lia).
  pose proof (nd_range C HC) as Hnd. pose proof (nd_bounds C (proj1 HC)) as Bnd.
  set (nd := ndigits C) in *.
  pad_stage x0 hi C nd be.
  final_stage nu_general2 x0 x1 st H0 H1 HC C be nd.
Qed.

Theorem OK_bid128_nextup x0 x1 st : in_u64 x0 -> in_u64 x1 -> in_u32 st -> ok_bid128_nextup x0 x1 st = true.
Proof.
  intros H0 H1 Hst. unfold ok_bid128_nextup. unfold_helpers. red_lets.
  pose proof H0 as H0'. pose proof H1 as H1'. unfold in_u64 in H0', H1'.
  word_norm lia. mask_tests. pose proof (g5W_range x1) as R.
  step_if B. { step_ifs; reflexivity. }
  step_if C24. { reflexivity. }
  step_if NC. { reflexivity. }
  step_if Z0. { reflexivity. }
  step_if MX. { reflexivity. }
  step_if MN. { reflexivity. }
  set (hi := x1 mod 562949953421312) in *.
  assert (Hhi : 0 <= hi < 562949953421312) by (apply Z.mod_pos_bound; reflexivity).
  set (C := hi * 18446744073709551616 + x0).
  assert (HC : 0 < C < 10000000000000000000000000000000000) by (unfold C; lia).
  word_norm lia.
  nbits_stage_ok x0 hi C.
  digits_stage_ok x0 hi C.
  set (be := (x1 / 562949953421312) mod 16384) in *.
  assert (Hbe : 0 <= be <= 12287) by (unfold be, g5W in *; lia).
  pose proof (nd_range C HC) as Hnd. pose proof (nd_bounds C (proj1 HC)) as Bnd.
  set (nd := ndigits C) in *.
  pad_stage_ok x0 hi C nd be.
  step_ifs; reflexivity.
Qed.

(* bid128_nextdown completely (the same script as bid128_nextup with the leaf lemmas of next_down): for every 128-bit
   operand pattern (NaN with payload canonicalisation, infinities, zeros and
   non-canonical encodings, -MAXFP, +MINFP, and the general case: digit count through the f64 idiom + BID_NR_DIGITS,
   zero padding of the coefficient to 34 digits or down to the least exponent by a BID_TEN2K64 / BID_TEN2K128 multiply,
   +-1 with the decade adjustments) and every incoming status word, the generated code never fails (ok_: every
   BID_NR_DIGITS / BID_TEN2K64 / BID_TEN2K128 index in range, every `as f64` argument below 2^53) and returns the model's
   single outcome: result words = the pattern of m_next_down, status word = incoming word | the flags of that outcome
   (invalid for a signaling NaN, nothing otherwise). *)
Theorem V_bid128_nextdown x0 x1 st : in_u64 x0 -> in_u64 x1 -> in_u32 st ->
  next_down_spec x0 x1 st (i_bid128_nextdown x0 x1 st).
Proof.
  intros H0 H1 Hst. unfold i_bid128_nextdown. unfold_helpers. red_lets.
  pose proof H0 as H0'. pose proof H1 as H1'. unfold in_u64 in H0', H1'.
  word_norm lia. mask_tests. pose proof (g5W_range x1) as R.
  step_if B.
  { (* NaN or infinity *)
    step_if A.
    - step_if EP; word_norm lia; step_if ES; nan_leaf nd_nan.
    - step_if SG; (apply nd_inf; [assumption|assumption|lia|]; unfold sgZ; rewrite SG; reflexivity). }
  step_if C24. { apply nd_zero; [assumption|assumption|lia|lia]. }
  step_if NC. { apply nd_zero; [assumption|assumption|lia|]. unfold hiW, T34. lia. }
  step_if Z0. { apply nd_zero; [assumption|assumption|lia|]. unfold hiW, T34. lia. }
  step_if MX. { literal_leaf next_down_spec. }
  step_if MN. { literal_leaf next_down_spec. }
  set (hi := x1 mod 562949953421312) in *.
  assert (Hhi : 0 <= hi < 562949953421312) by (apply Z.mod_pos_bound; reflexivity).
  set (C := hi * 18446744073709551616 + x0).
  assert (HC : 0 < C < 10000000000000000000000000000000000) by (unfold C; lia).
  word_norm lia.
  nbits_stage x0 hi C.
  digits_stage x0 hi C.
  set (be := (x1 / 562949953421312) mod 16384) in *.
  assert (Hbe : 0 <= be <= 12287) by (unfold be, g5W in *; lia).
  pose proof (nd_range C HC) as Hnd. pose proof (nd_bounds C (proj1 HC)) as Bnd.
  set (nd := ndigits C) in *.
  pad_stage x0 hi C nd be.
  final_stage nd_general2 x0 x1 st H0 H1 HC C be nd.
Qed.

Theorem OK_bid128_nextdown x0 x1 st : in_u64 x0 -> in_u64 x1 -> in_u32 st -> ok_bid128_nextdown x0 x1 st = true.
Proof.
  intros H0 H1 Hst. unfold ok_bid128_nextdown. unfold_helpers. red_lets.
  pose proof H0 as H0'. pose proof H1 as H1'. unfold in_u64 in H0', H1'.
  word_norm lia. mask_tests. pose proof (g5W_range x1) as R.
  step_if B. { step_ifs; reflexivity. }
  step_if C24. { reflexivity. }
  step_if NC. { reflexivity. }
  step_if Z0. { reflexivity. }
  step_if MX. { reflexivity. }
  step_if MN. { reflexivity. }
  set (hi := x1 mod 562949953421312) in *.
  assert (Hhi : 0 <= hi < 562949953421312) by (apply Z.mod_pos_bound; reflexivity).
  set (C := hi * 18446744073709551616 + x0).
  assert (HC : 0 < C < 10000000000000000000000000000000000) by (unfold C; lia).
  word_norm lia.
  nbits_stage_ok x0 hi C.
  digits_stage_ok x0 hi C.
  set (be := (x1 / 562949953421312) mod 16384) in *.
  assert (Hbe : 0 <= be <= 12287) by (unfold be, g5W in *; lia).
  pose proof (nd_range C HC) as Hnd. pose proof (nd_bounds C (proj1 HC)) as Bnd.
  set (nd := ndigits C) in *.
  pad_stage_ok x0 hi C nd be.
  step_ifs; reflexivity.
Qed.

