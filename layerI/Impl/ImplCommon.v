(* Layer I: the reference decoder read on the two 64-bit words of a pattern (logical path DVI).
   decodeW w0 w1 = decode (w1 * 2^64 + w0), with every field taken directly from the high word by div/mod with
   literal powers of two -- the shape that ImplLib.word_norm produces from the masks and shifts of the code. *)
From Coq Require Import ZArith Lia Bool List ZifyBool.
From DV Require Import Base Bid BidProofs OpsArith OpsCmp OpsMisc OpsConv.
From DVI Require Import ImplLib.
Import ListNotations.
Open Scope Z_scope.
Ltac Zify.zify_post_hook ::= Z.div_mod_to_equations.

Definition W64 := 18446744073709551616.   (* 2^64 *)
Definition pat (w0 w1 : Z) : Z := w1 * 18446744073709551616 + w0.

Definition decodeW (w0 w1 : Z) : dec :=
  let s := 9223372036854775808 <=? w1 in                       (* bit 63 *)
  let g5 := (w1 / 288230376151711744) mod 32 in                (* bits 58..62 *)
  if g5 =? 31 then
    let p := (w1 mod 70368744177664) * 18446744073709551616 + w0 in     (* low 46 bits of w1, and w0 *)
    NaN s (1 <=? (w1 / 144115188075855872) mod 2) (if p <? T33 then p else 0)   (* bit 57 *)
  else if g5 =? 30 then Inf s
  else if 24 <=? g5 then Fin s 0 ((w1 / 140737488355328) mod 16384 - 6176)      (* bits 47..60 *)
  else let c := (w1 mod 562949953421312) * 18446744073709551616 + w0 in         (* low 49 bits of w1, and w0 *)
       Fin s (if c <? T34 then c else 0) ((w1 / 562949953421312) mod 16384 - 6176).   (* bits 49..62 *)

Lemma hi_div r w0 d : 0 <= w0 < 18446744073709551616 -> 0 < d ->
  (r * 18446744073709551616 + w0) / (d * 18446744073709551616) = r / d.
Proof.
  intros H0 Hd. rewrite (Z.mul_comm d), <- Z.div_div by lia.
  rewrite Z.div_add_l by lia. rewrite (Z.div_small w0) by lia. rewrite Z.add_0_r. reflexivity.
Qed.
Lemma hi_mod r w0 d : 0 <= w0 < 18446744073709551616 -> 0 < d ->
  (r * 18446744073709551616 + w0) mod (d * 18446744073709551616) = (r mod d) * 18446744073709551616 + w0.
Proof.
  intros H0 Hd. pose proof (hi_div r w0 d H0 Hd) as Q.
  pose proof (Z.div_mod (r * 18446744073709551616 + w0) (d * 18446744073709551616) ltac:(lia)) as E.
  rewrite Q in E. pose proof (Z.div_mod r d ltac:(lia)) as E2. nia.
Qed.

Lemma f1 w1 : 0 <= w1 -> w1 mod 9223372036854775808 / 288230376151711744 = (w1 / 288230376151711744) mod 32.
Proof. intros. lia. Qed.
Lemma f2 w1 : 0 <= w1 -> (w1 mod 9223372036854775808) mod 70368744177664 = w1 mod 70368744177664.
Proof. intros. lia. Qed.
Lemma f3 w1 : 0 <= w1 -> (w1 mod 9223372036854775808 / 144115188075855872) mod 2 = (w1 / 144115188075855872) mod 2.
Proof. intros. lia. Qed.
Lemma f4 w1 : 0 <= w1 -> (w1 mod 9223372036854775808 / 140737488355328) mod 16384 = (w1 / 140737488355328) mod 16384.
Proof. intros. lia. Qed.
Lemma f5 w1 : 0 <= w1 -> (w1 mod 9223372036854775808) mod 562949953421312 = w1 mod 562949953421312.
Proof. intros. lia. Qed.
Lemma f6 w1 : 0 <= w1 -> w1 mod 9223372036854775808 / 562949953421312 = (w1 / 562949953421312) mod 16384.
Proof. intros. lia. Qed.

Theorem decode_words w0 w1 : in_u64 w0 -> in_u64 w1 -> decode (pat w0 w1) = decodeW w0 w1.
Proof.
  unfold in_u64, pat. intros H0 H1. unfold decode, decodeW.
  assert (Es : (P127 <=? w1 * 18446744073709551616 + w0) = (9223372036854775808 <=? w1)).
  { unfold P127. destruct (Z.leb_spec 9223372036854775808 w1); [apply Z.leb_le|apply Z.leb_gt]; lia. }
  rewrite Es. clear Es.
  change P127 with (9223372036854775808 * 18446744073709551616). rewrite (hi_mod w1 w0) by lia.
  change P122 with (288230376151711744 * 18446744073709551616).
  change P110 with (70368744177664 * 18446744073709551616).
  change P121 with (144115188075855872 * 18446744073709551616).
  change P111 with (140737488355328 * 18446744073709551616).
  change P113 with (562949953421312 * 18446744073709551616).
  rewrite !hi_div, !hi_mod by lia.
  rewrite f1, f2, f3, f4, f5, f6 by lia. reflexivity.
Qed.

Lemma pat_range w0 w1 : in_u64 w0 -> in_u64 w1 -> 0 <= pat w0 w1 < P128.
Proof. unfold in_u64, pat, P128. lia. Qed.

(* the four clauses of the format, as a case analysis on bits 58..62 of the high word *)
Lemma decodeW_cases w0 w1 :
  let s := 9223372036854775808 <=? w1 in
  let g5 := (w1 / 288230376151711744) mod 32 in
  (g5 = 31 /\ decodeW w0 w1 = NaN s (1 <=? (w1 / 144115188075855872) mod 2)
      (if (w1 mod 70368744177664) * 18446744073709551616 + w0 <? T33 then (w1 mod 70368744177664) * 18446744073709551616 + w0 else 0)) \/
  (g5 = 30 /\ decodeW w0 w1 = Inf s) \/
  (24 <= g5 < 30 /\ decodeW w0 w1 = Fin s 0 ((w1 / 140737488355328) mod 16384 - 6176)) \/
  (g5 < 24 /\ decodeW w0 w1 = Fin s (if (w1 mod 562949953421312) * 18446744073709551616 + w0 <? T34
                                       then (w1 mod 562949953421312) * 18446744073709551616 + w0 else 0)
                                      ((w1 / 562949953421312) mod 16384 - 6176)).
Proof.
  intros s g5. unfold decodeW. fold s g5.
  destruct (Z.eqb_spec g5 31) as [E31|E31]; [left; split; [exact E31|reflexivity]|right].
  destruct (Z.eqb_spec g5 30) as [E30|E30]; [left; split; [exact E30|reflexivity]|right].
  destruct (Z.leb_spec 24 g5) as [E24|E24]; [left|right]; (split; [|reflexivity]).
  - unfold g5 in *. lia.
  - exact E24.
Qed.

Lemma is_zero_Fin s c q : is_zero (Fin s c q) = (c =? 0).
Proof. destruct c; reflexivity. Qed.

Ltac dcases w0 w1 G :=
  let H := fresh "H" in
  destruct (decodeW_cases w0 w1) as [[G H]|[[G H]|[[G H]|[G H]]]]; rewrite H; clear H.

Ltac split_ifs :=
  repeat match goal with |- context [if ?c then _ else _] => let E := fresh "E" in destruct c eqn:E end.
Ltac red_lets := cbv beta iota zeta.

Lemma sign_bit w1 : 0 <= w1 < 18446744073709551616 -> (9223372036854775808 <=? w1) = (1 <=? w1 / 9223372036854775808).
Proof.
  intros H. destruct (Z.leb_spec 9223372036854775808 w1); symmetry; [apply Z.leb_le|apply Z.leb_gt].
  - apply Z.div_le_lower_bound; lia.
  - assert (w1 / 9223372036854775808 = 0) by (apply Z.div_small; lia). lia.
Qed.
Lemma bit_if a A : 0 <= a < 2 -> (if 1 <=? a then A else 0) = a * A.
Proof. intros H. destruct (Z.leb_spec 1 a); [assert (a = 1) as -> by lia|assert (a = 0) as -> by lia]; lia. Qed.

(* the value of a pattern from its two words, and back *)
Lemma pat_inj w0 w1 v0 v1 : in_u64 w0 -> in_u64 v0 -> pat w0 w1 = pat v0 v1 -> w0 = v0 /\ w1 = v1.
Proof. unfold in_u64, pat. intros. lia. Qed.

(* standard opening of a proof about one operand (w0,w1): the implementation is unfolded and brought to field
   arithmetic, the four clauses of decodeW are added, all fields of w1 become atoms, and the clause is selected *)
Ltac open1 w0 w1 G :=
  let D := fresh "D" in
  red_lets; word_norm lia;
  pose proof (decodeW_cases w0 w1) as D; cbv zeta in D; revert D;
  atomize w1 64 lia;
  intros [[G ->]|[[G ->]|[[G ->]|[G ->]]]].

Lemma one_out (a b fl : Z) : a = b -> [([a], fl)] = [([b], fl)].
Proof. intros ->. reflexivity. Qed.

(* ---------- word-level reading of the class and exponent fields; the mask tests of the code in those terms ---------- *)
Definition g5W (w1:Z) : Z := (w1 / 288230376151711744) mod 32.                  (* bits 58..62 *)
Definition bexpW (w1:Z) : Z :=                                                   (* biased exponent of a finite pattern *)
  if 24 <=? g5W w1 then (w1 / 140737488355328) mod 16384 else (w1 / 562949953421312) mod 16384.

Lemma g5W_range w1 : 0 <= g5W w1 < 32.
Proof. unfold g5W. apply Z.mod_pos_bound. reflexivity. Qed.

(* x & 0x7c00000000000000 == 0x7c00000000000000  (MASK_NAN, MASK_ANY_INF) *)
Lemma test_7c w1 : in_u64 w1 -> ((w1 / 288230376151711744) mod 32 * 288230376151711744 =? 8935141660703064064) = (g5W w1 =? 31).
Proof. intros H. unfold g5W. set (a := (w1 / 288230376151711744) mod 32). clearbody a. lia. Qed.
(* x & 0x7c00000000000000 == 0x7800000000000000 *)
Lemma test_7c_78 w1 : in_u64 w1 -> ((w1 / 288230376151711744) mod 32 * 288230376151711744 =? 8646911284551352320) = (g5W w1 =? 30).
Proof. intros H. unfold g5W. set (a := (w1 / 288230376151711744) mod 32). clearbody a. lia. Qed.
(* x & 0x7800000000000000 == 0x7800000000000000  (MASK_INF, MASK_SPECIAL): infinity or NaN *)
Lemma test_78 w1 : in_u64 w1 -> ((w1 / 576460752303423488) mod 16 * 576460752303423488 =? 8646911284551352320) = (30 <=? g5W w1).
Proof. unfold in_u64, g5W. intros H. atomize w1 64 lia. lia. Qed.
(* x & 0x6000000000000000 == 0x6000000000000000  (MASK_STEERING_BITS): G0G1 = 11 *)
Lemma test_60 w1 : in_u64 w1 -> ((w1 / 2305843009213693952) mod 4 * 2305843009213693952 =? 6917529027641081856) = (24 <=? g5W w1).
Proof. unfold in_u64, g5W. intros H. atomize w1 64 lia. lia. Qed.

(* x & 0x8000000000000000 == 0x8000000000000000  (MASK_SIGN) *)
Lemma test_80 w1 : in_u64 w1 -> ((w1 / 9223372036854775808) mod 2 * 9223372036854775808 =? 9223372036854775808) = (9223372036854775808 <=? w1).
Proof. unfold in_u64. intros H. lia. Qed.
(* x & 0x7e00000000000000 == 0x7e00000000000000  (MASK_SNAN): NaN with bit 57 set *)
Lemma test_7e w1 : in_u64 w1 -> ((w1 / 144115188075855872) mod 64 * 144115188075855872 =? 9079256848778919936) =
  (g5W w1 =? 31) && (1 <=? (w1 / 144115188075855872) mod 2).
Proof. unfold in_u64, g5W. intros H. atomize w1 64 lia. lia. Qed.

Ltac mask_tests := rewrite ?test_7c, ?test_7c_78, ?test_78, ?test_60, ?test_80, ?test_7e by assumption.

Lemma decodeW_g5 w0 w1 : decodeW w0 w1 =
  if g5W w1 =? 31 then
    let p := (w1 mod 70368744177664) * 18446744073709551616 + w0 in
    NaN (9223372036854775808 <=? w1) (1 <=? (w1 / 144115188075855872) mod 2) (if p <? T33 then p else 0)
  else if 30 <=? g5W w1 then Inf (9223372036854775808 <=? w1)
  else let c := (w1 mod 562949953421312) * 18446744073709551616 + w0 in
       Fin (9223372036854775808 <=? w1) (if 24 <=? g5W w1 then 0 else if c <? T34 then c else 0) (bexpW w1 - 6176).
Proof.
  unfold decodeW, bexpW. fold (g5W w1). pose proof (g5W_range w1) as R.
  destruct (Z.eqb_spec (g5W w1) 31) as [E|E]; [reflexivity|].
  destruct (Z.eqb_spec (g5W w1) 30) as [E0|E0].
  - destruct (Z.leb_spec 30 (g5W w1)); [reflexivity|lia].
  - destruct (Z.leb_spec 30 (g5W w1)); [lia|]. destruct (Z.leb_spec 24 (g5W w1)); reflexivity.
Qed.

(* destruct the conditions of all `if`s, innermost (if-free) conditions first *)
Ltac split_atomic_ifs :=
  repeat match goal with |- context [if ?c then _ else _] =>
    lazymatch c with context [if _ then _ else _] => fail | _ => destruct c end end.

Lemma decodeW_wf w0 w1 : in_u64 w0 -> in_u64 w1 -> wf (decodeW w0 w1).
Proof. intros H0 H1. rewrite <- decode_words by assumption. apply decode_wf. apply pat_range; assumption. Qed.

Ltac split_ifs_eq :=
  repeat match goal with |- context [if ?c then _ else _] =>
    lazymatch c with context [if _ then _ else _] => fail | _ => let E := fresh "E" in destruct c eqn:E end end.

(* walk through an ok_ predicate. Outermost first: a guard `if g then .. else false` (or else (false, ..) inside a merged
   tuple) is proved by tac from the path conditions kept in the context; other conditions are split with their equation;
   destructuring lets of calls are opened. *)
Ltac is_fail b := lazymatch b with false => idtac | (?p, _) => is_fail p end.
Ltac ok_step tac :=
  match goal with
  | |- true = true => reflexivity
  | |- context [if ?c then _ else ?b] =>
      lazymatch c with context [if _ then _ else _] => fail | _ => idtac end;
      first [ is_fail b; let H := fresh "G" in assert (H : c = true) by tac; rewrite H; clear H
            | let E := fresh "E" in destruct c eqn:E ]
  | |- context [match ?t with pair _ _ => _ end] =>
      lazymatch t with
      | context [if _ then _ else _] => fail
      | pair _ _ => fail
      | _ => destruct t
      end
  end; cbv beta iota.
Ltac ok_walk tac := repeat (ok_step tac).

