(* Layer I: why the remainder tests of handle_UF_128 are decisive (pure integer arithmetic, logical path DVI). *)
From Coq Require Import ZArith Lia Bool List ZifyBool.
Open Scope Z_scope.

(* the remainder of the multiply-and-shift division decides where C' mod D lies *)
Lemma recip_core R P D e B C' : 0 < D -> 0 < P -> R * D = P + e -> 0 <= e -> 0 <= C' <= B -> (B / D + 3) * e < R ->
  let Q := C' / D in let r := C' mod D in let rho := C' * R - Q * P in
  rho = Q * e + r * R /\ 0 <= rho < P /\ C' * R / P = Q /\
  (rho < R <-> r = 0) /\
  (forall h Ph, D = 2 * h -> P = 2 * Ph -> (Ph <= rho < Ph + R <-> r = h)) /\
  (P <= rho + R <-> r = D - 1).
Proof.
  intros HD HP HR He HC HB Q r rho.
  pose proof (Z.div_mod C' D ltac:(lia)) as Hdm. pose proof (Z.mod_pos_bound C' D HD) as Hr. fold Q r in Hdm, Hr.
  assert (HQ0 : 0 <= Q) by (apply Z.div_pos; lia).
  assert (HQB : Q <= B / D) by (apply Z.div_le_mono; lia).
  assert (HQe : (Q + 3) * e < R) by nia.
  assert (Erho : rho = Q * e + r * R).
  { unfold rho. replace (C' * R) with (Q * (R * D) + r * R) by (rewrite Hdm at 1; ring). rewrite HR. ring. }
  assert (R0 : 0 < R) by nia.
  assert (Hlo : 0 <= rho) by (rewrite Erho; nia).
  assert (Hhi : rho < P).
  { rewrite Erho. assert (r * R <= (D - 1) * R) by nia. replace ((D - 1) * R) with (P + e - R) in H by nia. nia. }
  split; [exact Erho|]. split; [lia|]. split.
  { symmetry. apply Z.div_unique with (r := rho); [lia|]. unfold rho. ring. }
  split; [|split].
  - rewrite Erho. split; intros H.
    + destruct (Z.eq_dec r 0) as [E|E]; [exact E|]. assert (1 <= r) by lia. nia.
    + rewrite H. nia.
  - intros h Ph Dh PPh. rewrite Erho. split; intros H.
    + destruct (Z_lt_le_dec r h) as [L|G].
      * exfalso. assert (r <= h - 1) by lia. assert (2 * (r * R) <= 2 * ((h - 1) * R)) by nia.
        assert (2 * (h * R) = 2 * Ph + e) by nia. nia.
      * destruct (Z.eq_dec r h) as [E|E]; [exact E|]. exfalso. assert (h + 1 <= r) by lia.
        assert (2 * ((h + 1) * R) <= 2 * (r * R)) by nia. assert (2 * (h * R) = 2 * Ph + e) by nia. nia.
    + rewrite H. assert (2 * (h * R) = 2 * Ph + e) by nia. nia.
  - rewrite Erho. split; intros H.
    + destruct (Z.eq_dec r (D - 1)) as [E|E]; [exact E|]. exfalso. assert (r <= D - 2) by lia.
      assert (r * R <= (D - 2) * R) by nia. assert (D * R = P + e) by nia. nia.
    + rewrite H. assert (D * R = P + e) by nia. nia.
Qed.

(* the high word of a product X = Qh * W + Ql (W = 2^128), shifted right by s (p = 2^s), is X / (W * p); the remainder is
   made of the low s bits of Qh and all of Ql *)
Lemma split_high Qh Ql p W X : 0 < p -> 0 < W -> 0 <= Ql < W -> 0 <= Qh -> Qh * W + Ql = X ->
  Qh / p = X / (W * p) /\ X - (X / (W * p)) * (W * p) = (Qh mod p) * W + Ql.
Proof.
  intros Hp HW HQl HQh E.
  pose proof (Z.div_mod Qh p ltac:(lia)) as DM. pose proof (Z.mod_pos_bound Qh p Hp) as MB.
  assert (EQ : Qh / p = X / (W * p)).
  { apply Z.div_unique with (r := (Qh mod p) * W + Ql).
    - left. nia.
    - rewrite <- E. nia. }
  split; [exact EQ|]. rewrite <- EQ, <- E. nia.
Qed.

(* the three remainder tests on the pieces: a = low s bits of Qh (0 <= a < p = 2^s), Ql the low 128 bits, W = 2^128 *)
Lemma rem_tests a p p2 Ql R : p = 2 * p2 -> 0 <= a < p -> 0 <= Ql < 340282366920938463463374607431768211456 ->
  0 < R < 340282366920938463463374607431768211456 ->
  let W := 340282366920938463463374607431768211456 in let rho := a * W + Ql in
  (rho < R <-> (a = 0 /\ Ql < R)) /\
  (W * p2 <= rho < W * p2 + R <-> (a = p2 /\ Ql < R)) /\
  (W * p <= rho + R <-> p <= a + (Ql + R) / W).
Proof.
  intros Hp Ha HQl HR W rho. unfold rho, W.
  assert (HC : (Ql + R) / 340282366920938463463374607431768211456 = 0 \/ (Ql + R) / 340282366920938463463374607431768211456 = 1).
  { assert (0 <= (Ql + R) / 340282366920938463463374607431768211456 < 2) by (split; [apply Z.div_pos; lia|apply Z.div_lt_upper_bound; lia]). lia. }
  pose proof (Z.div_mod (Ql + R) 340282366920938463463374607431768211456 ltac:(lia)) as DM.
  pose proof (Z.mod_pos_bound (Ql + R) 340282366920938463463374607431768211456 ltac:(lia)) as MB.
  repeat split; intros; lia.
Qed.

(* ---------- quotient and exact-division test from the four 64-bit words of C' * K (K < 2^128, scale 2^(128+s)) ---------- *)
Lemma quot_tests K s D e B C' p0 p1 p2 p3 : 0 < D -> 0 <= s -> K * D = 2 ^ (128 + s) + e -> 1 <= e -> 0 <= C' <= B -> (B / D + 3) * e < K ->
  0 <= K < 340282366920938463463374607431768211456 ->
  0 <= p0 < 18446744073709551616 -> 0 <= p1 < 18446744073709551616 -> 0 <= p2 < 18446744073709551616 -> 0 <= p3 < 18446744073709551616 ->
  ((p3 * 18446744073709551616 + p2) * 18446744073709551616 + p1) * 18446744073709551616 + p0 = C' * K ->
  let Q := C' / D in let r := C' mod D in let lo := p1 * 18446744073709551616 + p0 in
  (s < 64 -> (p3 * 18446744073709551616 + p2) / 2 ^ s = Q /\
     ((p2 mod 2 ^ s =? 0) && (negb (lo =? 0)) && (lo <=? K - 1)) = ((r =? 0) && (0 <? Q))) /\
  (64 <= s -> p3 / 2 ^ (s - 64) = Q /\
     ((p3 mod 2 ^ (s - 64) =? 0) && (p2 =? 0) && (negb (lo =? 0)) && (lo <=? K - 1)) = ((r =? 0) && (0 <? Q))).
Proof.
  intros HD Hs HR He HC HB HK H0 H1 H2 H3 HP Q r lo.
  assert (HPS : 0 < 2 ^ (128 + s)) by (apply Z.pow_pos_nonneg; lia).
  destruct (recip_core K (2 ^ (128 + s)) D e B C' HD HPS HR ltac:(lia) HC HB) as (Erho & Brho & EQ & T0 & _ & _).
  fold Q r in Erho, Brho, EQ, T0. set (rho := C' * K - Q * 2 ^ (128 + s)) in *.
  assert (HQ0 : 0 <= Q) by (apply Z.div_pos; lia).
  assert (Hr : 0 <= r < D) by (apply Z.mod_pos_bound; lia).
  assert (Hlo : 0 <= lo < 340282366920938463463374607431768211456) by (unfold lo; lia).
  assert (POS : r = 0 -> (0 < rho <-> 0 < Q)).
  { intros R0. rewrite Erho, R0, Z.mul_0_l, Z.add_0_r. clear - HQ0 He. split; intros H; [destruct (Z.eq_dec Q 0) as [->|]; lia|apply Z.mul_pos_pos; lia]. }
  assert (LOW : forall a : Z, 0 <= a -> rho = a * 340282366920938463463374607431768211456 + lo -> rho < K -> a = 0).
  { intros a Ha E L. clear - Ha E L HK Hlo. destruct (Z.eq_dec a 0); [assumption|]. assert (1 <= a) by lia. nia. }
  split.
  - intros Hs64. assert (Hps : 0 < 2 ^ s) by (apply Z.pow_pos_nonneg; lia).
    assert (E128 : 2 ^ (128 + s) = 340282366920938463463374607431768211456 * 2 ^ s) by (rewrite Z.pow_add_r by lia; reflexivity).
    set (Qh := p3 * 18446744073709551616 + p2) in *.
    destruct (split_high Qh lo (2 ^ s) 340282366920938463463374607431768211456 (C' * K) Hps ltac:(lia) Hlo ltac:(unfold Qh; lia)
                ltac:(rewrite <- HP; unfold Qh, lo; ring)) as [SQ SR].
    rewrite <- E128 in SQ, SR. rewrite EQ in SQ, SR. fold rho in SR.
    assert (EM : Qh mod 2 ^ s = p2 mod 2 ^ s).
    { unfold Qh. assert (E64 : 18446744073709551616 = 2 ^ (64 - s) * 2 ^ s) by (rewrite <- Z.pow_add_r by lia; replace (64 - s + s) with 64 by ring; reflexivity).
      rewrite E64. rewrite Z.mul_assoc, Z.add_comm, Z.mod_add by lia. reflexivity. }
    rewrite EM in SR. split; [exact SQ|].
    assert (Hm : 0 <= p2 mod 2 ^ s) by (apply Z.mod_pos_bound; lia).
    destruct (Z.eqb_spec r 0) as [R0|R0]; cbn [andb].
    + pose proof (proj2 T0 R0) as T1. specialize (POS R0).
      assert (Hm0 : p2 mod 2 ^ s = 0) by (apply LOW; assumption). rewrite Hm0. cbn [Z.eqb andb].
      assert (E : rho = lo) by (rewrite SR, Hm0; ring). clear - E T1 POS Brho. destruct (Z.ltb_spec 0 Q); lia.
    + assert (T1 : ~ rho < K) by (intros X; apply R0, T0, X).
      destruct (Z.eqb_spec (p2 mod 2 ^ s) 0) as [Z0|Z0]; cbn [andb]; [|reflexivity].
      assert (E : rho = lo) by (rewrite SR, Z0; ring). clear - E T1 Brho. lia.
  - intros Hs64. set (s' := s - 64) in *. assert (Hps' : 0 < 2 ^ s') by (apply Z.pow_pos_nonneg; unfold s'; lia).
    set (W := 340282366920938463463374607431768211456 * 18446744073709551616).
    assert (EW : 2 ^ (128 + s) = W * 2 ^ s').
    { unfold W, s'. replace (128 + s) with (192 + (s - 64)) by ring. rewrite Z.pow_add_r by lia. reflexivity. }
    set (Ql := p2 * 340282366920938463463374607431768211456 + lo).
    assert (HQl : 0 <= Ql < W) by (unfold Ql, W; lia).
    destruct (split_high p3 Ql (2 ^ s') W (C' * K) Hps' ltac:(unfold W; lia) HQl ltac:(lia)
                ltac:(rewrite <- HP; unfold Ql, lo, W; ring)) as [SQ SR].
    rewrite <- EW in SQ, SR. rewrite EQ in SQ, SR. fold rho in SR.
    split; [exact SQ|].
    assert (Hm : 0 <= p3 mod 2 ^ s') by (apply Z.mod_pos_bound; lia).
    assert (SR' : rho = (p3 mod 2 ^ s' * 18446744073709551616 + p2) * 340282366920938463463374607431768211456 + lo)
      by (rewrite SR; unfold W, Ql; ring).
    destruct (Z.eqb_spec r 0) as [R0|R0]; cbn [andb].
    + pose proof (proj2 T0 R0) as T1. specialize (POS R0).
      assert (Hz : p3 mod 2 ^ s' * 18446744073709551616 + p2 = 0) by (apply LOW; [lia|assumption|assumption]).
      assert (Hm0 : p3 mod 2 ^ s' = 0) by (clear - Hz Hm H2; lia). assert (Hp2 : p2 = 0) by (clear - Hz Hm H2; lia).
      rewrite Hm0, Hp2. cbn [Z.eqb andb].
      assert (E : rho = lo) by (rewrite SR', Hz; ring). clear - E T1 POS Brho. destruct (Z.ltb_spec 0 Q); lia.
    + assert (T1 : ~ rho < K) by (intros X; apply R0, T0, X).
      destruct (Z.eqb_spec (p3 mod 2 ^ s') 0) as [Z0|Z0]; cbn [andb]; [|reflexivity].
      destruct (Z.eqb_spec p2 0) as [Z2|Z2]; cbn [andb]; [|reflexivity].
      assert (E : rho = lo) by (rewrite SR', Z0, Z2; ring). clear - E T1 Brho. lia.
Qed.
