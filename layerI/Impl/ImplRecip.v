(* Layer I: why the remainder tests of handle_UF_128 are decisive (pure integer arithmetic, logical path DVI). *)
From Coq Require Import ZArith Lia Bool List.
Open Scope Z_scope.

(* the remainder of the multiply-and-shift division decides where C' mod D lies *)
Lemma recip_core R P D e B C' : 0 < D -> 0 < P -> R * D = P + e -> 0 <= e -> 0 <= C' <= B -> (B / D + 3) * e < R ->
  let Q := C' / D in let r := C' mod D in let rho := C' * R - Q * P in
  rho = Q * e + r * R /\ 0 <= rho < P /\ C' * R / P = Q /\
  (rho < R <-> r = 0) /\
  (forall h Ph, D = 2 * h -> P = 2 * Ph -> (Ph <= rho < Ph + R <-> r = h)) /\
  (P <= rho + R <-> r = D - 1).
Proof.
  intros HD HP HR He HC HB Q r rho.
  pose proof (Z.div_mod C' D ltac:(lia)) as Hdm. pose proof (Z.mod_pos_bound C' D HD) as Hr. fold Q r in Hdm, Hr.
  assert (HQ0 : 0 <= Q) by (apply Z.div_pos; lia).
  assert (HQB : Q <= B / D) by (apply Z.div_le_mono; lia).
  assert (HQe : (Q + 3) * e < R) by nia.
  assert (Erho : rho = Q * e + r * R).
  { unfold rho. replace (C' * R) with (Q * (R * D) + r * R) by (rewrite Hdm at 1; ring). rewrite HR. ring. }
  assert (R0 : 0 < R) by nia.
  assert (Hlo : 0 <= rho) by (rewrite Erho; nia).
  assert (Hhi : rho < P).
  { rewrite Erho. assert (r * R <= (D - 1) * R) by nia. replace ((D - 1) * R) with (P + e - R) in H by nia. nia. }
  split; [exact Erho|]. split; [lia|]. split.
  { symmetry. apply Z.div_unique with (r := rho); [lia|]. unfold rho. ring. }
  split; [|split].
  - rewrite Erho. split; intros H.
    + destruct (Z.eq_dec r 0) as [E|E]; [exact E|]. assert (1 <= r) by lia. nia.
    + rewrite H. nia.
  - intros h Ph Dh PPh. rewrite Erho. split; intros H.
    + destruct (Z_lt_le_dec r h) as [L|G].
      * exfalso. assert (r <= h - 1) by lia. assert (2 * (r * R) <= 2 * ((h - 1) * R)) by nia.
        assert (2 * (h * R) = 2 * Ph + e) by nia. nia.
      * destruct (Z.eq_dec r h) as [E|E]; [exact E|]. exfalso. assert (h + 1 <= r) by lia.
        assert (2 * ((h + 1) * R) <= 2 * (r * R)) by nia. assert (2 * (h * R) = 2 * Ph + e) by nia. nia.
    + rewrite H. assert (2 * (h * R) = 2 * Ph + e) by nia. nia.
  - rewrite Erho. split; intros H.
    + destruct (Z.eq_dec r (D - 1)) as [E|E]; [exact E|]. exfalso. assert (r <= D - 2) by lia.
      assert (r * R <= (D - 2) * R) by nia. assert (D * R = P + e) by nia. nia.
    + rewrite H. assert (D * R = P + e) by nia. nia.
Qed.

(* the high word of a product X = Qh * W + Ql (W = 2^128), shifted right by s (p = 2^s), is X / (W * p); the remainder is
   made of the low s bits of Qh and all of Ql *)
Lemma split_high Qh Ql p W X : 0 < p -> 0 < W -> 0 <= Ql < W -> 0 <= Qh -> Qh * W + Ql = X ->
  Qh / p = X / (W * p) /\ X - (X / (W * p)) * (W * p) = (Qh mod p) * W + Ql.
Proof.
  intros Hp HW HQl HQh E.
  pose proof (Z.div_mod Qh p ltac:(lia)) as DM. pose proof (Z.mod_pos_bound Qh p Hp) as MB.
  assert (EQ : Qh / p = X / (W * p)).
  { apply Z.div_unique with (r := (Qh mod p) * W + Ql).
    - left. nia.
    - rewrite <- E. nia. }
  split; [exact EQ|]. rewrite <- EQ, <- E. nia.
Qed.

(* the three remainder tests on the pieces: a = low s bits of Qh (0 <= a < p = 2^s), Ql the low 128 bits, W = 2^128 *)
Lemma rem_tests a p p2 Ql R : p = 2 * p2 -> 0 <= a < p -> 0 <= Ql < 340282366920938463463374607431768211456 ->
  0 < R < 340282366920938463463374607431768211456 ->
  let W := 340282366920938463463374607431768211456 in let rho := a * W + Ql in
  (rho < R <-> (a = 0 /\ Ql < R)) /\
  (W * p2 <= rho < W * p2 + R <-> (a = p2 /\ Ql < R)) /\
  (W * p <= rho + R <-> p <= a + (Ql + R) / W).
Proof.
  intros Hp Ha HQl HR W rho. unfold rho, W.
  assert (HC : (Ql + R) / 340282366920938463463374607431768211456 = 0 \/ (Ql + R) / 340282366920938463463374607431768211456 = 1).
  { assert (0 <= (Ql + R) / 340282366920938463463374607431768211456 < 2) by (split; [apply Z.div_pos; lia|apply Z.div_lt_upper_bound; lia]). lia. }
  pose proof (Z.div_mod (Ql + R) 340282366920938463463374607431768211456 ltac:(lia)) as DM.
  pose proof (Z.mod_pos_bound (Ql + R) 340282366920938463463374607431768211456 ltac:(lia)) as MB.
  repeat split; intros; lia.
Qed.
