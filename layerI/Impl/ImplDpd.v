(* Layer I: facts for bid_to_dpd128 / bid_dpd_to_bid128 (logical path DVI).
   - the generated tables BID_B2D (1000 rows) and BID_D2B (1024 rows) are the declet maps of IEEE 754-2008 tables 3.4 / 3.3
     (declet_enc / declet_dec of OpsConv.v), checked row by row by kernel computation;
   - the eleven declets of the 110-bit trailing field, read on the two words;
   - multiplication by ceil(2^128/1000) and taking the high 128 bits divides by 1000 (for n < 2^118);
   - Z.lor of bit-disjoint summands is addition. Axiom-free. *)
From Coq Require Import ZArith Lia Bool List ZifyBool.
From DV Require Import Base Bid BidProofs OpsArith OpsCmp OpsMisc OpsConv DpdProofs.
From DVI Require Import ImplLib ImplGen ImplCommon ImplMul0.
Import ListNotations.
Open Scope Z_scope.
Ltac Zify.zify_post_hook ::= Z.div_mod_to_equations.

(* Z.lor of a value below 2^k and a multiple of 2^k *)
Lemma lor_low_mult a b k pk : 0 <= k -> pk = 2 ^ k -> 0 <= a < pk -> b mod pk = 0 -> Z.lor a b = a + b.
Proof.
  intros Hk -> Ha Hb. assert (P : 0 < 2 ^ k) by (apply Z.pow_pos_nonneg; lia).
  assert (E : b = (b / 2 ^ k) * 2 ^ k) by (pose proof (Z.div_mod b (2 ^ k) ltac:(lia)); lia).
  rewrite E at 1. rewrite lor_low_high by assumption. lia.
Qed.
Lemma lor_mult_low a b k pk : 0 <= k -> pk = 2 ^ k -> 0 <= a < pk -> b mod pk = 0 -> Z.lor b a = b + a.
Proof. intros. rewrite Z.lor_comm, Z.add_comm. eapply lor_low_mult; eassumption. Qed.

(* the i-th 10-bit group of the 110-bit trailing field t = t1 * 2^64 + w0 (t1: low 46 bits of the high word) *)
Lemma trailing_groups w0 t1 : 0 <= w0 < 18446744073709551616 -> 0 <= t1 < 70368744177664 ->
  let t := t1 * 18446744073709551616 + w0 in
  (t / 1) mod 1024 = w0 mod 1024 /\
  (t / 1024) mod 1024 = (w0 / 1024) mod 1024 /\
  (t / 1048576) mod 1024 = (w0 / 1048576) mod 1024 /\
  (t / 1073741824) mod 1024 = (w0 / 1073741824) mod 1024 /\
  (t / 1099511627776) mod 1024 = (w0 / 1099511627776) mod 1024 /\
  (t / 1125899906842624) mod 1024 = (w0 / 1125899906842624) mod 1024 /\
  (t / 1152921504606846976) mod 1024 = w0 / 1152921504606846976 + (t1 mod 64) * 16 /\
  (t / 1180591620717411303424) mod 1024 = (t1 / 64) mod 1024 /\
  (t / 1208925819614629174706176) mod 1024 = (t1 / 65536) mod 1024 /\
  (t / 1237940039285380274899124224) mod 1024 = (t1 / 67108864) mod 1024 /\
  (t / 1267650600228229401496703205376) mod 1024 = (t1 / 68719476736) mod 1024.
Proof. intros H0 H1 t. unfold t. repeat split; lia. Qed.

Definition D (v:Z) := declet_dec v.
Lemma declets11_unfold t : 0 <= t ->
  declets_dec 11 t =
  D ((t / 1) mod 1024) + 1000 * (D ((t / 1024) mod 1024) + 1000 * (D ((t / 1048576) mod 1024) + 1000 * (D ((t / 1073741824) mod 1024) +
  1000 * (D ((t / 1099511627776) mod 1024) + 1000 * (D ((t / 1125899906842624) mod 1024) + 1000 * (D ((t / 1152921504606846976) mod 1024) +
  1000 * (D ((t / 1180591620717411303424) mod 1024) + 1000 * (D ((t / 1208925819614629174706176) mod 1024) +
  1000 * (D ((t / 1237940039285380274899124224) mod 1024) + 1000 * (D ((t / 1267650600228229401496703205376) mod 1024) + 1000 * 0)))))))))).
Proof.
  intros Ht. unfold D. cbn [declets_dec]. rewrite Z.div_1_r.
  rewrite !Z.div_div by lia. reflexivity.
Qed.

Lemma bit_test a K : 0 <= a < 2 -> 0 < K -> (if a * K =? K then 1 else 0) = a.
Proof. intros Ha HK. destruct (Z.eqb_spec (a * K) K); nia. Qed.

(* sign | payload words | NaN bits (which repeat the sign) *)
Lemma lor3_nan S B M : 0 <= S -> S mod 9223372036854775808 = 0 -> 0 <= M < 9223372036854775808 ->
  M mod 144115188075855872 = 0 -> 0 <= B < 144115188075855872 ->
  Z.lor (Z.lor S B) (S + M) = S + M + B.
Proof.
  intros HS HSm HM HMm HB.
  assert (E1 : S + M = Z.lor M S) by (rewrite (lor_low_mult M S 63 9223372036854775808) by (try reflexivity; lia); lia).
  rewrite E1. rewrite (Z.lor_comm S B). rewrite <- Z.lor_assoc. rewrite (Z.lor_comm S (Z.lor M S)).
  rewrite <- (Z.lor_assoc M S S), Z.lor_diag. rewrite Z.lor_assoc.
  rewrite (lor_low_mult B M 57 144115188075855872) by (try reflexivity; lia).
  rewrite (lor_low_mult (B + M) S 63 9223372036854775808) by (try reflexivity; lia). lia.
Qed.

(* ---------- helpers of bid_internal.rs used by bid_to_dpd128 (generated code) ---------- *)
Lemma S_add_128_128 a0 a1 b0 b1 : in_u64 a0 -> in_u64 a1 -> in_u64 b0 -> in_u64 b1 ->
  (a1 + b1) * 18446744073709551616 + a0 + b0 < 340282366920938463463374607431768211456 ->
  let '(lo, hi) := i___add_128_128 a0 a1 b0 b1 in
  in_u64 lo /\ in_u64 hi /\ hi * 18446744073709551616 + lo = (a1 + b1) * 18446744073709551616 + a0 + b0.
Proof.
  unfold in_u64. intros A0 A1 B0 B1 Hs. unfold i___add_128_128, i_d128_Default_default, i_d128_new. cbv beta iota zeta.
  unfold wrap_u64. destruct (Z.ltb_spec ((b0 + a0) mod 18446744073709551616) b0); lia.
Qed.

Lemma S_sub_128_128 a0 a1 b0 b1 : in_u64 a0 -> in_u64 a1 -> in_u64 b0 -> in_u64 b1 ->
  b1 * 18446744073709551616 + b0 <= a1 * 18446744073709551616 + a0 ->
  let '(lo, hi) := i___sub_128_128 a0 a1 b0 b1 in
  in_u64 lo /\ in_u64 hi /\ hi * 18446744073709551616 + lo = (a1 * 18446744073709551616 + a0) - (b1 * 18446744073709551616 + b0).
Proof.
  unfold in_u64. intros A0 A1 B0 B1 Hs. unfold i___sub_128_128, i_d128_Default_default, i_d128_new. cbv beta iota zeta.
  unfold wrap_u64. destruct (Z.ltb_spec a0 b0); lia.
Qed.

(* high 128 bits of the 256-bit product; the code drops the carry of the middle sum, which cannot occur when the
   cross products are small (here: A < 2^113, B = ceil(2^128/1000) < 2^119) *)
Lemma S_mul_128x128_high A0 A1 B0 B1 : in_u64 A0 -> in_u64 A1 -> in_u64 B0 -> in_u64 B1 ->
  A1 < 562949953421312 -> B1 < 36028797018963968 ->
  let '(r0, r1) := i___mul_128x128_high A0 A1 B0 B1 in
  in_u64 r0 /\ in_u64 r1 /\
  r1 * 18446744073709551616 + r0 =
  ((A1 * 18446744073709551616 + A0) * (B1 * 18446744073709551616 + B0)) / 340282366920938463463374607431768211456.
Proof.
  intros HA0 HA1 HB0 HB1 LA LB. unfold i___mul_128x128_high. cbv beta iota zeta.
  pose proof (S_mul_64x64_to_128 A0 B1 HA0 HB1) as S1. destruct (i___mul_64x64_to_128 A0 B1) as [lh0 lh1].
  pose proof (S_mul_64x64_to_128 B0 A1 HB0 HA1) as S2. destruct (i___mul_64x64_to_128 B0 A1) as [hl0 hl1].
  pose proof (S_mul_64x64_to_128 A0 B0 HA0 HB0) as S3. destruct (i___mul_64x64_to_128 A0 B0) as [ll0 ll1].
  pose proof (S_mul_64x64_to_128 A1 B1 HA1 HB1) as S4. destruct (i___mul_64x64_to_128 A1 B1) as [hh0 hh1].
  destruct S1 as (R1 & R2 & E1). destruct S2 as (R3 & R4 & E2). destruct S3 as (R5 & R6 & E3). destruct S4 as (R7 & R8 & E4).
  unfold in_u64 in *.
  assert (P1 : 0 <= A0 * B1 <= 18446744073709551615 * 36028797018963967) by (apply mul_bound; lia).
  assert (P2 : 0 <= B0 * A1 <= 18446744073709551615 * 562949953421311) by (apply mul_bound; lia).
  assert (P3 : 0 <= A0 * B0 <= 18446744073709551615 * 18446744073709551615) by (apply mul_bound; lia).
  assert (P4 : 0 <= A1 * B1 <= 562949953421311 * 36028797018963967) by (apply mul_bound; lia).
  pose proof (S_add_128_128 lh0 lh1 hl0 hl1 R1 R2 R3 R4 ltac:(lia)) as S5. destruct (i___add_128_128 lh0 lh1 hl0 hl1) as [m0 m1].
  destruct S5 as (R9 & R10 & E5). unfold in_u64 in *.
  pose proof (S_add_128_64 m0 m1 ll1 R9 R10 R6 ltac:(lia)) as S6. destruct (i___add_128_64 m0 m1 ll1) as [n0 n1].
  destruct S6 as (R11 & R12 & E6). unfold in_u64 in *.
  pose proof (S_add_128_64 hh0 hh1 n1 R7 R8 R12 ltac:(lia)) as S7. destruct (i___add_128_64 hh0 hh1 n1) as [r0 r1].
  destruct S7 as (R13 & R14 & E7). unfold in_u64 in *.
  split; [lia|]. split; [lia|].
  replace ((A1 * 18446744073709551616 + A0) * (B1 * 18446744073709551616 + B0)) with
    ((A1 * B1) * 340282366920938463463374607431768211456 + ((A0 * B1 + B0 * A1) * 18446744073709551616 + A0 * B0)) by ring.
  rewrite Z.div_add_l by lia.
  set (p1 := A0 * B1) in *. set (p2 := B0 * A1) in *. set (p3 := A0 * B0) in *. set (p4 := A1 * B1) in *.
  clearbody p1 p2 p3 p4. lia.
Qed.

(* multiplying by R = ceil(2^128/1000) and keeping the high 128 bits divides by 1000 *)
Lemma recip1000 n : 0 <= n < 332306998946228968225951765070086144 ->   (* 2^118 *)
  (n * 340282366920938463463374607431768212) / 340282366920938463463374607431768211456 = n / 1000.
Proof.
  intros Hn. symmetry. apply Z.div_unique with (r := (n / 1000) * 544 + (n mod 1000) * 340282366920938463463374607431768212); lia.
Qed.

Definition Ed (v:Z) := declet_enc v.
Lemma declets11_enc_unfold n :
  declets_enc 11 n =
  Ed ((n / 1) mod 1000) + 1024 * (Ed ((n / 1000) mod 1000) + 1024 * (Ed ((n / 1000000) mod 1000) + 1024 * (Ed ((n / 1000000000) mod 1000) +
  1024 * (Ed ((n / 1000000000000) mod 1000) + 1024 * (Ed ((n / 1000000000000000) mod 1000) + 1024 * (Ed ((n / 1000000000000000000) mod 1000) +
  1024 * (Ed ((n / 1000000000000000000000) mod 1000) + 1024 * (Ed ((n / 1000000000000000000000000) mod 1000) +
  1024 * (Ed ((n / 1000000000000000000000000000) mod 1000) + 1024 * (Ed ((n / 1000000000000000000000000000000) mod 1000) + 1024 * 0)))))))))).
Proof. unfold Ed. cbn [declets_enc]. rewrite Z.div_1_r. rewrite !Z.div_div by lia. reflexivity. Qed.

Lemma Ed_range v : 0 <= v < 1000 -> 0 <= Ed v < 1024.
Proof. intros H. exact (proj2 (declet_roundtrip v H)). Qed.

(* Z.lor of two bit-disjoint summands (one below 2^k, the other a multiple of 2^k) is their sum; k is searched *)
Ltac lor_try a b k tac :=
  let pk := eval vm_compute in (2 ^ k) in
  first [ rewrite (lor_low_mult a b k pk) by (first [reflexivity | tac])
        | rewrite (lor_mult_low b a k pk) by (first [reflexivity | tac]) ].
Ltac lor_sum_step tac :=
  match goal with
  | |- context [Z.lor ?a ?b] =>
      first [ lor_try a b 4 tac | lor_try a b 6 tac | lor_try a b 10 tac | lor_try a b 12 tac | lor_try a b 13 tac
            | lor_try a b 15 tac | lor_try a b 16 tac | lor_try a b 20 tac | lor_try a b 26 tac | lor_try a b 30 tac
            | lor_try a b 36 tac | lor_try a b 40 tac | lor_try a b 46 tac | lor_try a b 49 tac | lor_try a b 50 tac
            | lor_try a b 57 tac | lor_try a b 58 tac | lor_try a b 60 tac | lor_try a b 63 tac ]
  end.
Ltac lor_sum tac := repeat (lor_sum_step tac).

Lemma lor3_nan' S B M : 0 <= S -> S mod 9223372036854775808 = 0 -> 0 <= M < 9223372036854775808 ->
  M mod 144115188075855872 = 0 -> 0 <= B < 144115188075855872 ->
  Z.lor (S + B) (S + M) = S + M + B.
Proof.
  intros. rewrite <- (lor3_nan S B M) by assumption. f_equal.
  rewrite (lor_mult_low B S 63 9223372036854775808) by (try reflexivity; lia). reflexivity.
Qed.

(* digits of c mod 10^33 are digits of c *)
Lemma rest_digits11 c : 0 <= c ->
  let r := c mod 1000000000000000000000000000000000 in
  (r / 1) mod 1000 = c mod 1000 /\ (r / 1000) mod 1000 = (c / 1000) mod 1000 /\ (r / 1000000) mod 1000 = (c / 1000000) mod 1000 /\
  (r / 1000000000) mod 1000 = (c / 1000000000) mod 1000 /\ (r / 1000000000000) mod 1000 = (c / 1000000000000) mod 1000 /\
  (r / 1000000000000000) mod 1000 = (c / 1000000000000000) mod 1000 /\
  (r / 1000000000000000000) mod 1000 = (c / 1000000000000000000) mod 1000 /\
  (r / 1000000000000000000000) mod 1000 = (c / 1000000000000000000000) mod 1000 /\
  (r / 1000000000000000000000000) mod 1000 = (c / 1000000000000000000000000) mod 1000 /\
  (r / 1000000000000000000000000000) mod 1000 = (c / 1000000000000000000000000000) mod 1000 /\
  (r / 1000000000000000000000000000000) mod 1000 = (c / 1000000000000000000000000000000) mod 1000.
Proof. intros Hc r. unfold r. repeat split; lia. Qed.

(* ---------- the chain of divisions by 1000 in bid_to_dpd128 ---------- *)
(* one division step b -> b / 1000 by the reciprocal multiplication *)
Lemma div1000_step b0 b1 : in_u64 b0 -> in_u64 b1 -> b1 < 562949953421312 ->
  let '(q0, q1) := i___mul_128x128_high b0 b1 11363194349405083796 18446744073709551 in
  in_u64 q0 /\ in_u64 q1 /\ q1 * 18446744073709551616 + q0 = (b1 * 18446744073709551616 + b0) / 1000.
Proof.
  intros H0 H1 L. pose proof (S_mul_128x128_high b0 b1 11363194349405083796 18446744073709551 H0 H1 ltac:(unfold in_u64; lia) ltac:(unfold in_u64; lia) L ltac:(lia)) as S.
  destruct (i___mul_128x128_high _ _ _ _) as [q0 q1]. destruct S as (R0 & R1 & E). split; [exact R0|]. split; [exact R1|].
  rewrite E. change (18446744073709551 * 18446744073709551616 + 11363194349405083796) with 340282366920938463463374607431768212.
  apply recip1000. unfold in_u64 in *. lia.
Qed.

(* remainder step: d = b - 1000 * (b / 1000) *)
Lemma rem1000_step b0 b1 q0 q1 : in_u64 b0 -> in_u64 b1 -> in_u64 q0 -> in_u64 q1 -> b1 < 562949953421312 ->
  q1 * 18446744073709551616 + q0 = (b1 * 18446744073709551616 + b0) / 1000 ->
  let '(ph, t0, t1) := i___mul_64x128_full 1000 q0 q1 in
  let '(d0, d1) := i___sub_128_128 b0 b1 t0 t1 in
  d0 = (b1 * 18446744073709551616 + b0) mod 1000.
Proof.
  intros H0 H1 Q0 Q1 L E.
  pose proof (S_mul_64x128_full 1000 q0 q1 ltac:(unfold in_u64; lia) Q0 Q1) as S. destruct (i___mul_64x128_full 1000 q0 q1) as [[ph t0] t1].
  destruct S as (R0 & R1 & R2 & E2). unfold in_u64 in *.
  assert (PH : ph = 0) by lia.
  pose proof (S_sub_128_128 b0 b1 t0 t1 H0 H1 R1 R2 ltac:(lia)) as S2. destruct (i___sub_128_128 b0 b1 t0 t1) as [d0 d1].
  destruct S2 as (R3 & R4 & E3). unfold in_u64 in *. lia.
Qed.

Ltac high_step :=
  match goal with |- context [i___mul_128x128_high ?b0 ?b1 _ _] =>
    let S := fresh "SH" in let q0 := fresh "q0_" in let q1 := fresh "q1_" in
    let A := fresh "Q0r" in let B := fresh "Q1r" in let E := fresh "QE" in let L := fresh "QL" in
    pose proof (div1000_step b0 b1 ltac:(assumption) ltac:(assumption) ltac:(assumption)) as S;
    destruct (i___mul_128x128_high b0 b1 _ _) as [q0 q1]; destruct S as (A & B & E);
    match goal with Lb : b1 < 562949953421312, Hb0 : in_u64 b0, Hb1 : in_u64 b1 |- _ =>
      assert (L : q1 < 562949953421312) by (clear - A B E Lb Hb0 Hb1; unfold in_u64 in *; lia) end
  end.
Ltac rem_step :=
  match goal with |- context [i___sub_128_128 ?b0 ?b1 _ _] =>
    match goal with |- context [i___mul_64x128_full 1000 ?q0 ?q1] =>
    match goal with E : q1 * 18446744073709551616 + q0 = (b1 * 18446744073709551616 + b0) / 1000 |- _ =>
      let S := fresh "SR" in let d0 := fresh "dg" in
      pose proof (rem1000_step b0 b1 q0 q1 ltac:(assumption) ltac:(assumption) ltac:(assumption) ltac:(assumption) ltac:(assumption) E) as S;
      destruct (i___mul_64x128_full 1000 q0 q1) as [[? ?] ?]; destruct (i___sub_128_128 b0 b1 _ _) as [d0 ?]
    end end
  end.

