(* Layer I: the multi-word helpers of bid_internal.rs that bid128_class uses (generated code) compute exact products,
   the power-of-ten tables BID_TEN2K64 / BID_TEN2K128 hold 10^i / 10^(i+20), and the subnormal test of bid128_class
   (coefficient scaled to the minimum exponent is below 10^33) is the model's (logical path DVI). *)
From Coq Require Import ZArith Lia Bool List ZifyBool.
From Flocq Require Import Core.Zaux Core.Digits.
From DV Require Import Base Bid OpsArith OpsCmp OpsMisc.
From DVI Require Import ImplLib ImplGen ImplMul0.
Import ListNotations.
Open Scope Z_scope.

Ltac Zify.zify_post_hook ::= Z.div_mod_to_equations.

Lemma S_mul_64x128_to_192 A B0 B1 : in_u64 A -> in_u64 B0 -> in_u64 B1 ->
  let '(q0, q1, q2) := i___mul_64x128_to_192 A B0 B1 in
  in_u64 q0 /\ in_u64 q1 /\ in_u64 q2 /\
  q2 * 340282366920938463463374607431768211456 + q1 * 18446744073709551616 + q0 = A * (B1 * 18446744073709551616 + B0).
Proof.
  intros HA H0 H1. unfold i___mul_64x128_to_192. cbv beta iota zeta.
  pose proof (S_mul_64x64_to_128 A B1 HA H1) as S1. destruct (i___mul_64x64_to_128 A B1) as [h0 h1].
  pose proof (S_mul_64x64_to_128 A B0 HA H0) as S0. destruct (i___mul_64x64_to_128 A B0) as [l0 l1].
  destruct S1 as (R1 & R2 & E1). destruct S0 as (R3 & R4 & E0).
  assert (Bd : A * B1 <= 18446744073709551615 * 18446744073709551615) by (unfold in_u64 in *; apply Z.mul_le_mono_nonneg; lia).
  assert (Hs : h1 * 18446744073709551616 + h0 + l1 < 340282366920938463463374607431768211456) by (unfold in_u64 in *; lia).
  pose proof (S_add_128_64 h0 h1 l1 R1 R2 R4 Hs) as S2. destruct (i___add_128_64 h0 h1 l1) as [m0 m1].
  destruct S2 as (R5 & R6 & E2). unfold in_u64 in *. repeat split; lia.
Qed.

Lemma S_add_carry_out X Y : in_u64 X -> in_u64 Y ->
  let '(sm, CY) := i___add_carry_out X Y in in_u64 sm /\ 0 <= CY <= 1 /\ sm + CY * 18446744073709551616 = X + Y.
Proof.
  unfold in_u64. intros HX HY. unfold i___add_carry_out. cbv beta iota zeta. unfold wrap_u64.
  destruct (Z.ltb_spec ((X + Y) mod 18446744073709551616) X); lia.
Qed.

Lemma S_add_carry_in_out X Y CI : in_u64 X -> in_u64 Y -> 0 <= CI <= 1 ->
  let '(sm, CY) := i___add_carry_in_out X Y CI in in_u64 sm /\ 0 <= CY <= 1 /\ sm + CY * 18446744073709551616 = X + Y + CI.
Proof.
  unfold in_u64. intros HX HY HC. unfold i___add_carry_in_out. cbv beta iota zeta. unfold wrap_u64.
  destruct (Z.ltb_spec (((X + CI) mod 18446744073709551616 + Y) mod 18446744073709551616) ((X + CI) mod 18446744073709551616));
  destruct (Z.ltb_spec ((X + CI) mod 18446744073709551616) CI); cbn [orb]; lia.
Qed.

Lemma S_mul_128x128_to_256 A0 A1 B0 B1 : in_u64 A0 -> in_u64 A1 -> in_u64 B0 -> in_u64 B1 ->
  let '(p0, p1, p2, p3) := i___mul_128x128_to_256 A0 A1 B0 B1 in
  in_u64 p0 /\ in_u64 p1 /\ in_u64 p2 /\ in_u64 p3 /\
  ((p3 * 18446744073709551616 + p2) * 18446744073709551616 + p1) * 18446744073709551616 + p0 =
  (A1 * 18446744073709551616 + A0) * (B1 * 18446744073709551616 + B0).
Proof.
  intros HA0 HA1 HB0 HB1. unfold i___mul_128x128_to_256. cbv beta iota zeta.
  pose proof (S_mul_64x128_full A0 B0 B1 HA0 HB0 HB1) as S0. destruct (i___mul_64x128_full A0 B0 B1) as [[phl qll0] qll1].
  pose proof (S_mul_64x128_full A1 B0 B1 HA1 HB0 HB1) as S1. destruct (i___mul_64x128_full A1 B0 B1) as [[phh qlh0] qlh1].
  destruct S0 as (R1 & R2 & R3 & E0). destruct S1 as (R4 & R5 & R6 & E1).
  pose proof (S_add_carry_out qlh0 qll1 R5 R3) as S2. destruct (i___add_carry_out qlh0 qll1) as [p1 cy1].
  destruct S2 as (R7 & R8 & E2).
  pose proof (S_add_carry_in_out qlh1 phl cy1 R6 R1 R8) as S3. destruct (i___add_carry_in_out qlh1 phl cy1) as [p2 cy2].
  destruct S3 as (R9 & R10 & E3).
  set (B := B1 * 18446744073709551616 + B0) in *.
  assert (HB : 0 <= B <= 340282366920938463463374607431768211455) by (unfold B, in_u64 in *; lia).
  assert (Bd : A1 * B <= 18446744073709551615 * 340282366920938463463374607431768211455)
    by (unfold in_u64 in *; apply Z.mul_le_mono_nonneg; lia).
  replace ((A1 * 18446744073709551616 + A0) * B) with ((A1 * B) * 18446744073709551616 + A0 * B) by ring.
  rewrite <- E0, <- E1 in *. clearbody B. unfold wrap_u64, in_u64 in *.
  repeat split; try lia.
Qed.

(* ---------- powers of ten: BID_TEN2K64[i] = 10^i (i < 20), BID_TEN2K128[i] = 10^(i+20) (i < 19) ---------- *)
Lemma ten2k64_all : forallb (fun i => nth (Z.to_nat i) T_BID_TEN2K64 0 =? 10 ^ i) (map Z.of_nat (seq 0 20)) = true.
Proof. vm_compute. reflexivity. Qed.
Lemma ten2k128_all : forallb (fun i => (nth (Z.to_nat i) T_BID_TEN2K128_w1 0 * 18446744073709551616 + nth (Z.to_nat i) T_BID_TEN2K128_w0 0 =? 10 ^ (i + 20))
    && (0 <=? nth (Z.to_nat i) T_BID_TEN2K128_w0 0) && (nth (Z.to_nat i) T_BID_TEN2K128_w0 0 <? 18446744073709551616)
    && (0 <=? nth (Z.to_nat i) T_BID_TEN2K128_w1 0) && (nth (Z.to_nat i) T_BID_TEN2K128_w1 0 <? 18446744073709551616))
  (map Z.of_nat (seq 0 19)) = true.
Proof. vm_compute. reflexivity. Qed.

Lemma in_range_list i n : 0 <= i < Z.of_nat n -> In i (map Z.of_nat (seq 0 n)).
Proof. intros H. apply in_map_iff. exists (Z.to_nat i). split; [apply Z2Nat.id; lia|]. apply in_seq. lia. Qed.

Lemma ten2k64_row i : 0 <= i < 20 -> nth (Z.to_nat i) T_BID_TEN2K64 0 = 10 ^ i.
Proof.
  intros H. pose proof ten2k64_all as A. rewrite forallb_forall in A. apply Z.eqb_eq. apply A. apply in_range_list. exact H.
Qed.
Lemma ten2k128_row i : 0 <= i < 19 ->
  in_u64 (nth (Z.to_nat i) T_BID_TEN2K128_w0 0) /\ in_u64 (nth (Z.to_nat i) T_BID_TEN2K128_w1 0) /\
  nth (Z.to_nat i) T_BID_TEN2K128_w1 0 * 18446744073709551616 + nth (Z.to_nat i) T_BID_TEN2K128_w0 0 = 10 ^ (i + 20).
Proof.
  intros H. pose proof ten2k128_all as A. rewrite forallb_forall in A. specialize (A i (in_range_list i 19 H)).
  rewrite !andb_true_iff in A. destruct A as [[[[A1 A2] A3] A4] A5].
  apply Z.eqb_eq in A1. apply Z.leb_le in A2, A4. apply Z.ltb_lt in A3, A5. unfold in_u64. repeat split; assumption.
Qed.

(* subnormal <-> coefficient scaled to exponent -6176 is below 10^33 *)
Lemma subnormal_iff c e : 0 < c -> 0 <= e -> (ndigits c + (e - 6176) - 1 < -6143 <-> c * 10 ^ e < 10 ^ 33).
Proof.
  intros Hc He.
  assert (B : 10 ^ (ndigits c - 1) <= c < 10 ^ ndigits c).
  { unfold ndigits. pose proof (Zdigits_correct radix10 c) as H. rewrite Z.abs_eq in H by lia. exact H. }
  assert (N : 0 < ndigits c) by (unfold ndigits; apply Zdigits_gt_0; lia).
  assert (Pe : 0 < 10 ^ e) by (apply Z.pow_pos_nonneg; lia).
  split.
  - intros H. assert (L : ndigits c <= 33 - e) by lia.
    assert (c < 10 ^ (33 - e)) by (apply Z.lt_le_trans with (10 ^ ndigits c); [lia|apply Z.pow_le_mono_r; lia]).
    replace 33 with ((33 - e) + e) at 1 by lia. rewrite Z.pow_add_r by lia. apply Z.mul_lt_mono_pos_r; assumption.
  - intros H. destruct (Z_lt_le_dec (ndigits c + e) 34) as [L|L]; [lia|exfalso].
    assert (10 ^ 33 <= c * 10 ^ e); [|lia].
    apply Z.le_trans with (10 ^ (ndigits c - 1) * 10 ^ e); [|apply Z.mul_le_mono_nonneg_r; lia].
    rewrite <- Z.pow_add_r by lia. apply Z.pow_le_mono_r; lia.
Qed.
