(* Layer I, group N (bid128_nextup / bid128_nextdown / bid128_nextafter / bid128_nexttoward): shared lemmas (logical path DVI).
   - the two multiplication helpers of the padding step (__mul_64x64_to_128MACH, __mul_128x64_to_128) are exact, and composed
     with the BID_TEN2K64 / BID_TEN2K128 rows they compute C * 10^k (pad_mach, pad_128_a, pad_128_b);
   - the model's normalize / next_up_dec / next_down_dec in the shape of the code (nu_k, step_dec) and the word-level
     description of the +-1 ulp step (stepW) with its correctness (stepW_ok);
   - one "leaf" lemma per class of operand (NaN, infinity, zero / non-canonical, general), for next_up and next_down;
   - the tactics that walk through the generated code (shared by the blocks of ImplNextProofs.v).
   Axiom-free; imports only ImplLib, ImplGen, ImplCommon, ImplTables. *)
From Coq Require Import ZArith Lia Bool List ZifyBool.
From Flocq Require Import Core.Zaux Core.Digits.
From DV Require Import Base Bid BidProofs OpsArith OpsCmp OpsMisc ScaleProofs.
From DVI Require Import ImplLib ImplGen ImplCommon ImplTables.
Import ListNotations.
Open Scope Z_scope.
Ltac Zify.zify_post_hook ::= Z.div_mod_to_equations.
Ltac dlia := Z.div_mod_to_equations; lia.

Definition v128 (w0 w1 : Z) : Z := w1 * 18446744073709551616 + w0.

(* ---------- the two multiplication helpers (generated code) are exact ---------- *)
Lemma mul_bound a b A B : 0 <= a <= A -> 0 <= b <= B -> 0 <= a * b <= A * B.
Proof. intros. split; [apply Z.mul_nonneg_nonneg; lia|apply Z.mul_le_mono_nonneg; lia]. Qed.

Lemma S_mul_64x64_to_128MACH CX CY : in_u64 CX -> in_u64 CY ->
  let '(lo, hi) := i___mul_64x64_to_128MACH CX CY in
  in_u64 lo /\ in_u64 hi /\ hi * 18446744073709551616 + lo = CX * CY.
Proof.
  unfold in_u64. intros HX HY. unfold i___mul_64x64_to_128MACH, i_d128_new. cbv beta iota zeta.
  rewrite !(shiftr_lit _ 32 4294967296) by (try reflexivity; lia).
  rewrite !(shiftl_lit _ 32 4294967296) by (try reflexivity; lia).
  unfold wrap_u32, wrap_u64.
  set (xh := CX / 4294967296). set (xl := CX mod 4294967296). set (yh := CY / 4294967296). set (yl := CY mod 4294967296).
  assert (Hxh : 0 <= xh <= 4294967295) by (unfold xh; lia). assert (Hxl : 0 <= xl <= 4294967295) by (unfold xl; lia).
  assert (Hyh : 0 <= yh <= 4294967295) by (unfold yh; lia). assert (Hyl : 0 <= yl <= 4294967295) by (unfold yl; lia).
  assert (EX : CX = xh * 4294967296 + xl) by (unfold xh, xl; lia).
  assert (EY : CY = yh * 4294967296 + yl) by (unfold yh, yl; lia).
  assert (EP : CX * CY = (xh * yh) * 18446744073709551616 + (xh * yl + xl * yh) * 4294967296 + xl * yl) by (rewrite EX, EY; ring).
  rewrite EP. clear EP EX EY.
  pose proof (mul_bound xh yl _ _ Hxh Hyl) as B1. pose proof (mul_bound xh yh _ _ Hxh Hyh) as B2.
  pose proof (mul_bound xl yl _ _ Hxl Hyl) as B3. pose proof (mul_bound xl yh _ _ Hxl Hyh) as B4.
  set (a := xh * yl) in *. set (b := xh * yh) in *. set (c := xl * yl) in *. set (d := xl * yh) in *.
  clearbody a b c d xh xl yh yl. cbn in B1, B2, B3, B4.
  lia.
Qed.

Lemma S_mul_128x64_to_128 A B0 B1 : in_u64 A -> in_u64 B0 -> in_u64 B1 ->
  let '(q0, q1) := i___mul_128x64_to_128 A B0 B1 in
  in_u64 q0 /\ in_u64 q1 /\ v128 q0 q1 = (A * v128 B0 B1) mod 340282366920938463463374607431768211456.
Proof.
  intros HA H0 H1. unfold i___mul_128x64_to_128. cbv beta iota zeta.
  pose proof (S_mul_64x64_to_128MACH A B0 HA H0) as S0. destruct (i___mul_64x64_to_128MACH A B0) as [l0 l1].
  destruct S0 as (R3 & R4 & E0). unfold v128, wrap_u64.
  replace (A * (B1 * 18446744073709551616 + B0)) with ((A * B1) * 18446744073709551616 + A * B0) by ring. rewrite <- E0.
  set (p := A * B1). clearbody p. unfold in_u64 in *. repeat split; lia.
Qed.

(* ---------- powers of ten: BID_TEN2K64[i] = 10^i (i < 20), BID_TEN2K128[i] = 10^(i+20) (i < 19) ---------- *)
Lemma ten2k64_all : forallb (fun i => nth (Z.to_nat i) T_BID_TEN2K64 0 =? 10 ^ i) (map Z.of_nat (seq 0 20)) = true.
Proof. vm_compute. reflexivity. Qed.
Lemma ten2k128_all : forallb (fun i => (nth (Z.to_nat i) T_BID_TEN2K128_w1 0 * 18446744073709551616 + nth (Z.to_nat i) T_BID_TEN2K128_w0 0 =? 10 ^ (i + 20))
    && (0 <=? nth (Z.to_nat i) T_BID_TEN2K128_w0 0) && (nth (Z.to_nat i) T_BID_TEN2K128_w0 0 <? 18446744073709551616)
    && (0 <=? nth (Z.to_nat i) T_BID_TEN2K128_w1 0) && (nth (Z.to_nat i) T_BID_TEN2K128_w1 0 <? 18446744073709551616))
  (map Z.of_nat (seq 0 19)) = true.
Proof. vm_compute. reflexivity. Qed.

Lemma in_range_list i n : 0 <= i < Z.of_nat n -> In i (map Z.of_nat (seq 0 n)).
Proof. intros H. apply in_map_iff. exists (Z.to_nat i). split; [apply Z2Nat.id; lia|]. apply in_seq. lia. Qed.

Lemma ten2k64_row i : 0 <= i < 20 -> nth (Z.to_nat i) T_BID_TEN2K64 0 = 10 ^ i.
Proof.
  intros H. pose proof ten2k64_all as A. rewrite forallb_forall in A. apply Z.eqb_eq. apply A. apply in_range_list. exact H.
Qed.
Lemma ten2k128_row i : 0 <= i < 19 ->
  in_u64 (nth (Z.to_nat i) T_BID_TEN2K128_w0 0) /\ in_u64 (nth (Z.to_nat i) T_BID_TEN2K128_w1 0) /\
  nth (Z.to_nat i) T_BID_TEN2K128_w1 0 * 18446744073709551616 + nth (Z.to_nat i) T_BID_TEN2K128_w0 0 = 10 ^ (i + 20).
Proof.
  intros H. pose proof ten2k128_all as A. rewrite forallb_forall in A. specialize (A i (in_range_list i 19 H)).
  rewrite !andb_true_iff in A. destruct A as [[[[A1 A2] A3] A4] A5].
  apply Z.eqb_eq in A1. apply Z.leb_le in A2, A4. apply Z.ltb_lt in A3, A5. unfold in_u64. repeat split; assumption.
Qed.

(* ---------- digit count and zero padding ---------- *)
Lemma nd_bounds C : 0 < C -> 10 ^ (ndigits C - 1) <= C < 10 ^ ndigits C.
Proof. intros H. unfold ndigits. pose proof (Zdigits_correct radix10 C) as D. rewrite Z.abs_eq in D by lia. exact D. Qed.
Lemma nd_range C : 0 < C < 10 ^ 34 -> 1 <= ndigits C <= 34.
Proof. intros H. unfold ndigits. apply digits34. exact H. Qed.

Lemma pad_bound C nd k : 0 < C < 10 ^ nd -> 0 <= k -> 0 <= nd -> nd + k <= 34 -> 0 < C * 10 ^ k < 10 ^ 34.
Proof.
  intros HC Hk Hn Hs. assert (P : 0 < 10 ^ k) by (apply Z.pow_pos_nonneg; lia). split; [nia|].
  apply Z.lt_le_trans with (10 ^ nd * 10 ^ k); [apply Z.mul_lt_mono_pos_r; lia|].
  rewrite <- Z.pow_add_r by lia. apply Z.pow_le_mono_r; lia.
Qed.
Lemma pad_low C nd k : 10 ^ (nd - 1) <= C -> 0 <= k -> 1 <= nd -> nd + k = 34 -> 10 ^ 33 <= C * 10 ^ k.
Proof.
  intros HC Hk Hn Hs. assert (P : 0 < 10 ^ k) by (apply Z.pow_pos_nonneg; lia).
  replace 33 with ((nd - 1) + k) by lia. rewrite Z.pow_add_r by lia. apply Z.mul_le_mono_nonneg_r; lia.
Qed.

Definition W := 18446744073709551616.
Definition wlo (c:Z) : Z := c mod 18446744073709551616.
Definition whi (c:Z) : Z := c / 18446744073709551616.

Lemma words_of v w0 w1 : in_u64 w0 -> in_u64 w1 -> v128 w0 w1 = v -> (w0, w1) = (wlo v, whi v).
Proof. unfold in_u64, v128, wlo, whi. intros H0 H1 <-. f_equal; lia. Qed.

(* 64-bit coefficient times a 64-bit power of ten *)
Lemma pad_mach C k : in_u64 C -> 0 <= k < 20 ->
  i___mul_64x64_to_128MACH C (nth (Z.to_nat k) T_BID_TEN2K64 0) = (wlo (C * 10 ^ k), whi (C * 10 ^ k)).
Proof.
  intros HC Hk. rewrite ten2k64_row by exact Hk.
  assert (HP : in_u64 (10 ^ k)).
  { unfold in_u64. split; [apply Z.pow_nonneg; lia|]. apply Z.le_lt_trans with (10 ^ 19); [apply Z.pow_le_mono_r; lia|]. vm_compute. reflexivity. }
  pose proof (S_mul_64x64_to_128MACH C (10 ^ k) HC HP) as S. destruct (i___mul_64x64_to_128MACH _ _) as [lo hi].
  destruct S as (R0 & R1 & E). apply words_of; assumption.
Qed.
(* 64-bit coefficient times a 128-bit power of ten; K = j + 20 *)
Lemma pad_128_a C j K : in_u64 C -> 0 <= j < 19 -> K = j + 20 -> C * 10 ^ K < 10 ^ 34 ->
  i___mul_128x64_to_128 C (nth (Z.to_nat j) T_BID_TEN2K128_w0 0) (nth (Z.to_nat j) T_BID_TEN2K128_w1 0) = (wlo (C * 10 ^ K), whi (C * 10 ^ K)).
Proof.
  intros HC Hj -> HB. destruct (ten2k128_row j Hj) as (T0 & T1 & TE).
  pose proof (S_mul_128x64_to_128 C _ _ HC T0 T1) as S. destruct (i___mul_128x64_to_128 _ _ _) as [q0 q1].
  destruct S as (R0 & R1 & E). apply words_of; try assumption. rewrite E. unfold v128 at 1. rewrite TE.
  apply Z.mod_small. assert (0 <= 10 ^ (j + 20)) by (apply Z.pow_nonneg; lia). unfold in_u64 in HC.
  split; [nia|]. apply Z.lt_trans with (10 ^ 34); [exact HB|]. vm_compute. reflexivity.
Qed.
(* 128-bit coefficient times a 64-bit power of ten *)
Lemma pad_128_b C0 C1 k : in_u64 C0 -> in_u64 C1 -> 0 <= k < 20 -> v128 C0 C1 * 10 ^ k < 10 ^ 34 ->
  i___mul_128x64_to_128 (nth (Z.to_nat k) T_BID_TEN2K64 0) C0 C1 = (wlo (v128 C0 C1 * 10 ^ k), whi (v128 C0 C1 * 10 ^ k)).
Proof.
  intros H0 H1 Hk HB. rewrite ten2k64_row by exact Hk.
  assert (HP : in_u64 (10 ^ k)).
  { unfold in_u64. split; [apply Z.pow_nonneg; lia|]. apply Z.le_lt_trans with (10 ^ 19); [apply Z.pow_le_mono_r; lia|]. vm_compute. reflexivity. }
  pose proof (S_mul_128x64_to_128 (10 ^ k) C0 C1 HP H0 H1) as S. destruct (i___mul_128x64_to_128 _ _ _) as [q0 q1].
  destruct S as (R0 & R1 & E). apply words_of; try assumption. rewrite E. rewrite Z.mul_comm.
  apply Z.mod_small. assert (0 <= 10 ^ k) by (apply Z.pow_nonneg; lia). unfold in_u64, v128 in *.
  split; [nia|]. apply Z.lt_trans with (10 ^ 34); [exact HB|]. vm_compute. reflexivity.
Qed.


(* ---------- the model's normalize / next_up_dec / next_down_dec in the shape of the code ---------- *)
Definition nu_k (nd be : Z) : Z := if nd <? 34 then (if be >? 34 - nd then 34 - nd else be) else 0.

Lemma normalize_k C q : 0 < C < 10 ^ 34 -> qmin <= q ->
  normalize C q = (C * 10 ^ nu_k (ndigits C) (q + 6176), q - nu_k (ndigits C) (q + 6176)).
Proof.
  intros HC Hq. pose proof (nd_range C HC) as R. unfold normalize, nu_k, qmin in *.
  replace (Z.max 0 (Z.min (34 - ndigits C) (q - -6176))) with
    (if ndigits C <? 34 then if q + 6176 >? 34 - ndigits C then 34 - ndigits C else q + 6176 else 0); [reflexivity|].
  destruct (Z.ltb_spec (ndigits C) 34); [destruct (Z.gtb_spec (q + 6176) (34 - ndigits C))|]; lia.
Qed.

Lemma nu_k_facts C be : 0 < C < 10 ^ 34 -> 0 <= be ->
  let k := nu_k (ndigits C) be in
  0 <= k <= be /\ k <= 34 - ndigits C /\ 0 < C * 10 ^ k < 10 ^ 34 /\ (0 < be - k -> 10 ^ 33 <= C * 10 ^ k).
Proof.
  intros HC Hb. pose proof (nd_range C HC) as R. pose proof (nd_bounds C (proj1 HC)) as B. cbv zeta. unfold nu_k.
  destruct (Z.ltb_spec (ndigits C) 34) as [L|L]; [destruct (Z.gtb_spec be (34 - ndigits C)) as [G|G]|].
  - split; [lia|]. split; [lia|]. split; [apply (pad_bound C (ndigits C)); lia|]. intros _. apply (pad_low C (ndigits C)); lia.
  - split; [lia|]. split; [lia|]. split; [apply (pad_bound C (ndigits C)); lia|]. lia.
  - change (10 ^ 0) with 1. rewrite Z.mul_1_r. split; [lia|]. split; [lia|]. split; [lia|]. intros _.
    replace (ndigits C) with 34 in B by lia. exact (proj1 B).
Qed.

Lemma pad_odd C k : 0 <= k -> C * 10 ^ k = 10 ^ 34 - 1 -> k = 0.
Proof.
  intros Hk E. destruct (Z.eq_dec k 0) as [|N]; [assumption|exfalso].
  replace k with (1 + (k - 1)) in E by lia. rewrite Z.pow_add_r in E by lia. change (10 ^ 1) with 10 in E.
  set (p := 10 ^ (k - 1)) in *. clearbody p. change (10 ^ 34 - 1) with 9999999999999999999999999999999999 in E.
  assert (M : (C * (10 * p)) mod 10 = 0) by (replace (C * (10 * p)) with (C * p * 10) by ring; apply Z_mod_mult).
  rewrite E in M. vm_compute in M. discriminate.
Qed.

Definition step_dec (sres add : bool) (C' q' : Z) : dec :=
  if add then (if C' + 1 =? T34 then (if qmax <? q' + 1 then Inf sres else Fin sres T33 (q' + 1)) else Fin sres (C' + 1) q')
  else (if C' - 1 =? 0 then Fin sres 0 qmin
        else if (C' - 1 <? T33) && (qmin <? q') then Fin sres ((C' - 1) * 10 + 9) (q' - 1) else Fin sres (C' - 1) q').

Lemma next_up_step s C q : (C =? 0) = false ->
  next_up_dec (Fin s C q) = let '(C', q') := normalize C q in step_dec s (negb s) C' q'.
Proof. intros N. unfold next_up_dec. rewrite N. destruct (normalize C q) as [C' q']. destruct s; reflexivity. Qed.

Lemma next_down_step s C q : (C =? 0) = false ->
  next_down_dec (Fin s C q) = let '(C', q') := normalize C q in step_dec s s C' q'.
Proof.
  intros N. unfold next_down_dec, neg_dec. cbn [sign_of set_sign]. unfold next_up_dec. rewrite N.
  destruct (normalize C q) as [C' q']. unfold step_dec. destruct s; cbn [negb];
  repeat match goal with |- context [if ?c then _ else _] => destruct c end; reflexivity.
Qed.

(* ---------- words of a finite result ---------- *)
Definition encW (s:bool) (c be : Z) : Z * Z :=
  (wlo c, (if s then 9223372036854775808 else 0) + be * 562949953421312 + whi c).

Lemma encW_ok s c be : 0 <= c < 10 ^ 34 -> 0 <= be <= 12287 ->
  in_u64 (fst (encW s c be)) /\ in_u64 (snd (encW s c be)) /\ pat (fst (encW s c be)) (snd (encW s c be)) = encode (Fin s c (be - 6176)).
Proof.
  intros Hc Hb. unfold encW, wlo, whi, in_u64, pat, encode, P127, P113. cbn [fst snd].
  change (10 ^ 34) with 10000000000000000000000000000000000 in Hc. destruct s; lia.
Qed.

(* the +-1 ulp step of the code on the normalised coefficient C' with biased exponent e' *)
Definition stepW (sres add : bool) (C' e' : Z) : Z * Z :=
  if add then (if C' + 1 =? T34 then encW sres T33 (e' + 1) else encW sres (C' + 1) e')
  else (if negb (e' =? 0) && (C' - 1 =? T33 - 1) then encW sres (T34 - 1) (e' - 1) else encW sres (C' - 1) e').

Lemma stepW_ok sres add C' e' : 0 < C' < 10 ^ 34 -> 0 <= e' <= 12287 -> (0 < e' -> 10 ^ 33 <= C') ->
  ~ (add = true /\ C' = 10 ^ 34 - 1 /\ e' = 12287) ->
  in_u64 (fst (stepW sres add C' e')) /\ in_u64 (snd (stepW sres add C' e')) /\
  pat (fst (stepW sres add C' e')) (snd (stepW sres add C' e')) = encode (step_dec sres add C' (e' - 6176)).
Proof.
  intros HC He HN HM. unfold stepW, step_dec, T34, T33, qmax, qmin.
  change (10 ^ 34) with 10000000000000000000000000000000000 in *. change (10 ^ 33) with 1000000000000000000000000000000000 in *.
  destruct add.
  - destruct (Z.eqb_spec (C' + 1) 10000000000000000000000000000000000) as [E|E].
    + assert (e' <> 12287) by (intros ->; apply HM; repeat split; lia).
      replace (6111 <? e' - 6176 + 1) with false by lia.
      replace (e' - 6176 + 1) with (e' + 1 - 6176) by ring. apply encW_ok; [vm_compute; split; [discriminate|reflexivity]|lia].
    + apply encW_ok; change (10 ^ 34) with 10000000000000000000000000000000000; lia.
  - destruct (Z.eqb_spec e' 0) as [E0|E0]; cbn [negb andb].
    + subst e'. replace (-6176 <? 0 - 6176) with false by lia. rewrite andb_false_r.
      destruct (Z.eqb_spec (C' - 1) 0) as [E1|E1].
      * rewrite E1. apply (encW_ok sres 0 0); [vm_compute; split; [discriminate|reflexivity]|lia].
      * apply encW_ok; change (10 ^ 34) with 10000000000000000000000000000000000; lia.
    + specialize (HN ltac:(lia)). replace (C' - 1 =? 0) with false by lia.
      replace (-6176 <? e' - 6176) with true by lia. rewrite andb_true_r.
      replace (C' - 1 <? 1000000000000000000000000000000000) with (C' - 1 =? 1000000000000000000000000000000000 - 1) by lia.
      destruct (Z.eqb_spec (C' - 1) (1000000000000000000000000000000000 - 1)) as [E1|E1].
      * rewrite E1. change ((1000000000000000000000000000000000 - 1) * 10 + 9) with (10000000000000000000000000000000000 - 1).
        replace (e' - 6176 - 1) with (e' - 1 - 6176) by ring. apply encW_ok; [vm_compute; split; [discriminate|reflexivity]|lia].
      * apply encW_ok; change (10 ^ 34) with 10000000000000000000000000000000000; lia.
Qed.


(* ---------- specifications and leaf lemmas ---------- *)
Definition next_up_spec (x0 x1 st : Z) (res : Z * Z * Z) : Prop :=
  let '(r0, r1, st') := res in
  in_u64 r0 /\ in_u64 r1 /\ exists fl, m_next_up (pat x0 x1) = [([pat r0 r1], fl)] /\ st' = Z.lor st fl.
Definition next_down_spec (x0 x1 st : Z) (res : Z * Z * Z) : Prop :=
  let '(r0, r1, st') := res in
  in_u64 r0 /\ in_u64 r1 /\ exists fl, m_next_down (pat x0 x1) = [([pat r0 r1], fl)] /\ st' = Z.lor st fl.

Definition hiW (x1:Z) : Z := x1 mod 562949953421312.                       (* low 49 bits of the high word *)
Definition beW (x1:Z) : Z := (x1 / 562949953421312) mod 16384.             (* bits 49..62 *)
Definition sgW (x1:Z) : bool := 9223372036854775808 <=? x1.
Definition sgZ (x1:Z) : Z := (x1 / 9223372036854775808) mod 2 * 9223372036854775808.   (* x1 & MASK_SIGN after word_norm *)

Lemma sgZ_sgW x1 : in_u64 x1 -> sgZ x1 = if sgW x1 then 9223372036854775808 else 0.
Proof. unfold in_u64, sgZ, sgW. intros H. destruct (Z.leb_spec 9223372036854775808 x1); lia. Qed.

(* NaN: quiet, payload canonicalised; invalid iff signaling (both operations) *)
Lemma nan_leaf x0 x1 : in_u64 x0 -> in_u64 x1 -> g5W x1 = 31 ->
  let p := (x1 mod 70368744177664) * 18446744073709551616 + x0 in
  let r0 := if p <? T33 then x0 else 0 in
  let r1 := sgZ x1 + 8935141660703064064 + (if p <? T33 then x1 mod 70368744177664 else 0) in
  let fl := if 1 <=? (x1 / 144115188075855872) mod 2 then 1 else 0 in
  in_u64 r0 /\ in_u64 r1 /\ nan_outcomes [decode (pat x0 x1)] = [([pat r0 r1], fl)].
Proof.
  intros H0 H1 G. cbv zeta. rewrite decode_words by assumption. rewrite decodeW_g5. rewrite G. cbn [Z.eqb Pos.eqb].
  unfold nan_outcomes. cbn [existsb filter is_nan is_snan map quiet orb]. rewrite sgZ_sgW by assumption. fold (sgW x1).
  set (p := x1 mod 70368744177664 * 18446744073709551616 + x0).
  assert (Hp : 0 <= x1 mod 70368744177664 < 70368744177664) by (apply Z.mod_pos_bound; reflexivity).
  unfold in_u64 in *. unfold T33.
  split; [destruct (p <? _); lia|]. split; [destruct (p <? _), (sgW x1); lia|].
  assert (E : encode (NaN (sgW x1) false (if p <? 1000000000000000000000000000000000 then p else 0)) =
              pat (if p <? 1000000000000000000000000000000000 then x0 else 0)
                  ((if sgW x1 then 9223372036854775808 else 0) + 8935141660703064064 +
                   (if p <? 1000000000000000000000000000000000 then x1 mod 70368744177664 else 0))).
  { unfold encode, pat, P127, P122. unfold p. destruct (_ <? _), (sgW x1); lia. }
  rewrite E. destruct (1 <=? _); reflexivity.
Qed.

Lemma nu_nan x0 x1 st r0 r1 st' : in_u64 x0 -> in_u64 x1 -> g5W x1 = 31 ->
  let p := (x1 mod 70368744177664) * 18446744073709551616 + x0 in
  r0 = (if p <? T33 then x0 else 0) ->
  r1 = sgZ x1 + 8935141660703064064 + (if p <? T33 then x1 mod 70368744177664 else 0) ->
  st' = (if 1 <=? (x1 / 144115188075855872) mod 2 then Z.lor st 1 else st) ->
  next_up_spec x0 x1 st (r0, r1, st').
Proof.
  intros H0 H1 G p -> -> ->. destruct (nan_leaf x0 x1 H0 H1 G) as (R0 & R1 & E). cbv zeta in R0, R1, E. fold p in R0, R1, E.
  unfold next_up_spec. split; [exact R0|]. split; [exact R1|].
  exists (if 1 <=? (x1 / 144115188075855872) mod 2 then 1 else 0). split.
  - unfold m_next_up. rewrite <- E. rewrite decode_words by assumption. rewrite decodeW_g5, G. reflexivity.
  - destruct (1 <=? _); [reflexivity|rewrite Z.lor_0_r; reflexivity].
Qed.
Lemma nd_nan x0 x1 st r0 r1 st' : in_u64 x0 -> in_u64 x1 -> g5W x1 = 31 ->
  let p := (x1 mod 70368744177664) * 18446744073709551616 + x0 in
  r0 = (if p <? T33 then x0 else 0) ->
  r1 = sgZ x1 + 8935141660703064064 + (if p <? T33 then x1 mod 70368744177664 else 0) ->
  st' = (if 1 <=? (x1 / 144115188075855872) mod 2 then Z.lor st 1 else st) ->
  next_down_spec x0 x1 st (r0, r1, st').
Proof.
  intros H0 H1 G p -> -> ->. destruct (nan_leaf x0 x1 H0 H1 G) as (R0 & R1 & E). cbv zeta in R0, R1, E. fold p in R0, R1, E.
  unfold next_down_spec. split; [exact R0|]. split; [exact R1|].
  exists (if 1 <=? (x1 / 144115188075855872) mod 2 then 1 else 0). split.
  - unfold m_next_down. rewrite <- E. rewrite decode_words by assumption. rewrite decodeW_g5, G. reflexivity.
  - destruct (1 <=? _); [reflexivity|rewrite Z.lor_0_r; reflexivity].
Qed.

(* infinity *)
Lemma nu_inf x0 x1 st r0 r1 : in_u64 x0 -> in_u64 x1 -> g5W x1 = 30 ->
  (r0, r1) = (if sgZ x1 =? 0 then (0, 8646911284551352320) else (4003012203950112767, 16140880215628679104)) ->
  next_up_spec x0 x1 st (r0, r1, st).
Proof.
  intros H0 H1 G E. unfold next_up_spec, m_next_up. rewrite decode_words by assumption. rewrite decodeW_g5, G.
  cbn [Z.eqb Pos.eqb Z.leb Z.compare Pos.compare Pos.compare_cont is_nan next_up_dec].
  rewrite sgZ_sgW in E by assumption. fold (sgW x1). destruct (sgW x1); cbn [Z.eqb] in E; injection E as -> ->;
  (split; [unfold in_u64; lia|]; split; [unfold in_u64; lia|]; exists 0; split; [vm_compute; reflexivity|rewrite Z.lor_0_r; reflexivity]).
Qed.
Lemma nd_inf x0 x1 st r0 r1 : in_u64 x0 -> in_u64 x1 -> g5W x1 = 30 ->
  (r0, r1) = (if sgZ x1 =? 0 then (4003012203950112767, 6917508178773903296) else (0, 17870283321406128128)) ->
  next_down_spec x0 x1 st (r0, r1, st).
Proof.
  intros H0 H1 G E. unfold next_down_spec, m_next_down. rewrite decode_words by assumption. rewrite decodeW_g5, G.
  cbn [Z.eqb Pos.eqb Z.leb Z.compare Pos.compare Pos.compare_cont is_nan next_down_dec next_up_dec neg_dec sign_of set_sign negb].
  rewrite sgZ_sgW in E by assumption. fold (sgW x1). destruct (sgW x1); cbn [Z.eqb] in E; injection E as -> ->;
  (split; [unfold in_u64; lia|]; split; [unfold in_u64; lia|]; exists 0; split; [vm_compute; reflexivity|rewrite Z.lor_0_r; reflexivity]).
Qed.

(* the finite operand as the model reads it *)
Lemma decode_fin x0 x1 : in_u64 x0 -> in_u64 x1 -> g5W x1 < 30 ->
  decode (pat x0 x1) = Fin (sgW x1) (if 24 <=? g5W x1 then 0 else if hiW x1 * 18446744073709551616 + x0 <? T34 then hiW x1 * 18446744073709551616 + x0 else 0)
                           (bexpW x1 - 6176).
Proof.
  intros H0 H1 G. rewrite decode_words by assumption. rewrite decodeW_g5.
  replace (g5W x1 =? 31) with false by lia. replace (30 <=? g5W x1) with false by lia. reflexivity.
Qed.

(* zero, or a non-canonical encoding (read as zero) *)
Lemma nu_zero x0 x1 st : in_u64 x0 -> in_u64 x1 -> g5W x1 < 30 ->
  (24 <= g5W x1 \/ T34 <= hiW x1 * 18446744073709551616 + x0 \/ hiW x1 * 18446744073709551616 + x0 = 0) ->
  next_up_spec x0 x1 st (1, 0, st).
Proof.
  intros H0 H1 G Z. unfold next_up_spec, m_next_up. rewrite decode_fin by assumption. cbn [is_nan].
  set (c := if 24 <=? g5W x1 then 0 else _). assert (c = 0) as -> by (unfold c; destruct (24 <=? g5W x1) eqn:?; [reflexivity|destruct (_ <? T34) eqn:?; lia]).
  split; [unfold in_u64; lia|]. split; [unfold in_u64; lia|]. exists 0. split; [|rewrite Z.lor_0_r; reflexivity]. reflexivity.
Qed.
Lemma nd_zero x0 x1 st : in_u64 x0 -> in_u64 x1 -> g5W x1 < 30 ->
  (24 <= g5W x1 \/ T34 <= hiW x1 * 18446744073709551616 + x0 \/ hiW x1 * 18446744073709551616 + x0 = 0) ->
  next_down_spec x0 x1 st (1, 9223372036854775808, st).
Proof.
  intros H0 H1 G Z. unfold next_down_spec, m_next_down. rewrite decode_fin by assumption. cbn [is_nan].
  set (c := if 24 <=? g5W x1 then 0 else _). assert (c = 0) as -> by (unfold c; destruct (24 <=? g5W x1) eqn:?; [reflexivity|destruct (_ <? T34) eqn:?; lia]).
  split; [unfold in_u64; lia|]. split; [unfold in_u64; lia|]. exists 0. split; [|rewrite Z.lor_0_r; reflexivity]. reflexivity.
Qed.

(* the general case: canonical, non-zero, finite *)
Lemma x1_fields x1 : in_u64 x1 -> g5W x1 < 24 ->
  x1 = (if sgW x1 then 9223372036854775808 else 0) + beW x1 * 562949953421312 + hiW x1 /\ 0 <= beW x1 <= 12287 /\
  0 <= hiW x1 < 562949953421312 /\ bexpW x1 = beW x1.
Proof.
  unfold in_u64, g5W, sgW, beW, hiW, bexpW, g5W. intros H G. replace (24 <=? (x1 / 288230376151711744) mod 32) with false by lia.
  destruct (Z.leb_spec 9223372036854775808 x1); lia.
Qed.

Lemma gen_facts x0 x1 (add : bool) : in_u64 x0 -> in_u64 x1 -> g5W x1 < 24 ->
  let C := hiW x1 * 18446744073709551616 + x0 in
  0 < C < T34 ->
  ~ (x1 = (if sgW x1 then 9223372036854775808 else 0) + 6917508178773903296 /\ x0 = 4003012203950112767 /\ add = true) ->
  let k := nu_k (ndigits C) (beW x1) in
  decode (pat x0 x1) = Fin (sgW x1) C (beW x1 - 6176) /\
  normalize C (beW x1 - 6176) = (C * 10 ^ k, beW x1 - k - 6176) /\
  in_u64 (fst (stepW (sgW x1) add (C * 10 ^ k) (beW x1 - k))) /\ in_u64 (snd (stepW (sgW x1) add (C * 10 ^ k) (beW x1 - k))) /\
  pat (fst (stepW (sgW x1) add (C * 10 ^ k) (beW x1 - k))) (snd (stepW (sgW x1) add (C * 10 ^ k) (beW x1 - k))) =
    encode (step_dec (sgW x1) add (C * 10 ^ k) (beW x1 - k - 6176)).
Proof.
  intros H0 H1 G C HC HM k. destruct (x1_fields x1 H1 G) as (EX & Hbe & Hhi & EB).
  assert (HC' : 0 < C < 10 ^ 34) by exact HC.
  split.
  { rewrite decode_fin by (try assumption; lia). replace (24 <=? g5W x1) with false by lia. fold C.
    replace (C <? T34) with true by lia. rewrite EB. reflexivity. }
  split.
  { rewrite normalize_k by (try assumption; unfold qmin; lia). replace (beW x1 - 6176 + 6176) with (beW x1) by ring.
    fold k. f_equal. ring. }
  destruct (nu_k_facts C (beW x1) HC' ltac:(lia)) as (K1 & K2 & K3 & K4). fold k in K1, K2, K3, K4.
  apply stepW_ok; try assumption; try lia.
  intros (Ea & Ec & Ee). apply HM. pose proof (pad_odd C k ltac:(lia) Ec) as K0. rewrite K0 in *.
  change (10 ^ 0) with 1 in Ec. rewrite Z.mul_1_r in Ec. change (10 ^ 34 - 1) with 9999999999999999999999999999999999 in Ec.
  unfold C in Ec. unfold in_u64 in *. split; [|split; [|exact Ea]]; lia.
Qed.

Lemma nu_general x0 x1 st r0 r1 : in_u64 x0 -> in_u64 x1 -> g5W x1 < 24 ->
  let C := hiW x1 * 18446744073709551616 + x0 in
  0 < C < T34 ->
  ~ (x1 = 6917508178773903296 /\ x0 = 4003012203950112767) ->
  let k := nu_k (ndigits C) (beW x1) in
  (r0, r1) = stepW (sgW x1) (negb (sgW x1)) (C * 10 ^ k) (beW x1 - k) ->
  next_up_spec x0 x1 st (r0, r1, st).
Proof.
  intros H0 H1 G C HC HM k E.
  destruct (gen_facts x0 x1 (negb (sgW x1)) H0 H1 G HC) as (D & N & R0 & R1 & P).
  { intros (A & B & S). apply HM. destruct (sgW x1); [discriminate|]. split; [exact A|exact B]. }
  fold C k in D, N, R0, R1, P. rewrite <- E in R0, R1, P. cbn [fst snd] in R0, R1, P.
  unfold next_up_spec, m_next_up. rewrite D. cbn [is_nan]. split; [exact R0|]. split; [exact R1|]. exists 0.
  split; [|rewrite Z.lor_0_r; reflexivity]. rewrite next_up_step by lia. rewrite N. rewrite P.
  replace (beW x1 - k - 6176) with (beW x1 - k - 6176) by ring. reflexivity.
Qed.
Lemma nd_general x0 x1 st r0 r1 : in_u64 x0 -> in_u64 x1 -> g5W x1 < 24 ->
  let C := hiW x1 * 18446744073709551616 + x0 in
  0 < C < T34 ->
  ~ (x1 = 16140880215628679104 /\ x0 = 4003012203950112767) ->
  let k := nu_k (ndigits C) (beW x1) in
  (r0, r1) = stepW (sgW x1) (sgW x1) (C * 10 ^ k) (beW x1 - k) ->
  next_down_spec x0 x1 st (r0, r1, st).
Proof.
  intros H0 H1 G C HC HM k E.
  destruct (gen_facts x0 x1 (sgW x1) H0 H1 G HC) as (D & N & R0 & R1 & P).
  { intros (A & B & S). apply HM. rewrite S in A. split; [exact A|exact B]. }
  fold C k in D, N, R0, R1, P. rewrite <- E in R0, R1, P. cbn [fst snd] in R0, R1, P.
  unfold next_down_spec, m_next_down. rewrite D. cbn [is_nan]. split; [exact R0|]. split; [exact R1|]. exists 0.
  split; [|rewrite Z.lor_0_r; reflexivity]. rewrite next_down_step by lia. rewrite N. rewrite P. reflexivity.
Qed.

(* ---------- small facts used by the walk ---------- *)
Lemma wrap_i32_u64 z : wrap_i32 (wrap_u64 z) = wrap_i32 z.
Proof. unfold wrap_i32, wrap_u64. lia. Qed.
Lemma nd_small C nd : C < 10 ^ nd -> nd <= 19 -> C < 10000000000000000000.
Proof. intros H L. apply Z.lt_le_trans with (10 ^ nd); [exact H|]. change 10000000000000000000 with (10 ^ 19). apply Z.pow_le_mono_r; lia. Qed.
Lemma lor3 s e c : (s = 0 \/ s = 9223372036854775808) -> 0 <= e < 9223372036854775808 -> e mod 562949953421312 = 0 ->
  0 <= c < 562949953421312 -> Z.lor (Z.lor s e) c = s + e + c.
Proof.
  intros Hs He Hm Hc. rewrite (lor_mult_low e s 63 9223372036854775808) by (try reflexivity; try lia; destruct Hs as [->| ->]; reflexivity).
  rewrite (lor_mult_low c (s + e) 49 562949953421312) by (try reflexivity; try lia; destruct Hs as [->| ->]; lia). reflexivity.
Qed.

(* ---------- the walk through the generated code (bid128_nextup and bid128_nextdown have the same skeleton) ----------
   The goal is  spec (TERM)  or  TERM = true  where TERM is the unfolded, zeta-reduced body: nested destructuring lets
   `match E with (a, b, ..) => .. end` whose innermost scrutinee E (the head of the spine) is an `if`. A step either
   splits on the condition of that `if` (step_if) or replaces the whole head by its value, proved separately
   (stages: bit length, digit count, zero padding), so that the paths through earlier stages do not multiply. No
   generated variable name is mentioned; the order of the components of a merged tuple is (and has to be) the
   translator's: (tmp, x_nr_bits), (C1_w0, C1_w1, x_exp), with a leading `true` in the ok_ predicate. *)
Ltac nx_unfold_helpers := unfold i_d128_Default_default, i_d128_new.
Ltac spine_head t := lazymatch t with
  | match ?s with pair _ _ => _ end => spine_head s
  | _ => t end.
Ltac goal_term k := lazymatch goal with |- ?t = true => k t | |- ?P ?t => k t end.
Tactic Notation "step_if" ident(E) :=
  goal_term ltac:(fun t => let h := spine_head t in
    lazymatch h with if ?c then _ else _ => destruct c eqn:E; cbv beta iota end).
Ltac step_ifs :=
  repeat (goal_term ltac:(fun t => let h := spine_head t in
    lazymatch h with if ?c then _ else _ => let E := fresh "E" in destruct c eqn:E; cbv beta iota end)).
(* a guard of the ok_ predicate at the head of the spine holds *)
Ltac guard_true tac :=
  goal_term ltac:(fun t => let h := spine_head t in
    lazymatch h with if ?c then _ else _ => replace c with true by tac; cbv beta iota end).

(* NaN leaf: L is nu_nan / nd_nan *)
Ltac nan_leaf L :=
  apply L; [assumption|assumption|lia|..]; cbv zeta; unfold T33, sgZ; unfold g5W in *;
  [ match goal with |- context [?p <? ?t] => destruct (Z.ltb_spec p t) end; lia
  | match goal with |- context [?p <? ?t] => destruct (Z.ltb_spec p t) end; lia
  | match goal with |- context [1 <=? ?b] => destruct (Z.leb_spec 1 b) end; first [reflexivity | lia] ].
(* the operand is one literal pattern (+-MAXFP, +-MINFP): both sides are closed *)
Ltac literal_leaf spec :=
  match goal with MX : (?a =? ?l1) && (?b =? ?l0) = true |- _ =>
    let Q := fresh "Q" in assert (Q : a = l1 /\ b = l0) by lia; destruct Q as [-> ->] end;
  unfold spec; split; [unfold in_u64; lia|]; split; [unfold in_u64; lia|]; exists 0;
  split; [vm_compute; reflexivity|rewrite Z.lor_0_r; reflexivity].

(* the bit length through the f64 idiom: value (tmp, 1 + floor(log2 C)) *)
Ltac nbits_tac x0 hi C :=
  destruct (hi =? 0) eqn:?Hz; [destruct (x0 >=? 9007199254740992) eqn:?Big|];
  [ replace (x0 >=? 4294967296) with true by lia; cbv beta iota;
    assert (X1 : 0 < x0 / 4294967296 < 9007199254740992) by lia;
    try (replace (x0 / 4294967296 <? 9007199254740992) with true by lia; cbv beta iota);
    rewrite (f64_exp_field _ X1); pose proof (log2_lt_53 _ X1); wrap_ids lia;
    eexists; repeat match goal with |- (_, _) = (_, _) => f_equal end;
    rewrite (log2_div_pow2 x0 32 4294967296) by (try reflexivity; lia); unfold C; replace hi with 0 by lia;
    rewrite Z.mul_0_l, Z.add_0_l; lia
  | assert (X1 : 0 < x0 < 9007199254740992) by lia;
    try (replace (x0 <? 9007199254740992) with true by lia; cbv beta iota);
    rewrite (f64_exp_field _ X1); pose proof (log2_lt_53 _ X1); wrap_ids lia;
    eexists; repeat match goal with |- (_, _) = (_, _) => f_equal end;
    unfold C; replace hi with 0 by lia; rewrite Z.mul_0_l, Z.add_0_l; lia
  | assert (X1 : 0 < hi < 9007199254740992) by lia;
    try (replace (hi <? 9007199254740992) with true by lia; cbv beta iota);
    rewrite (f64_exp_field _ X1); pose proof (log2_lt_53 _ X1); wrap_ids lia;
    eexists; repeat match goal with |- (_, _) = (_, _) => f_equal end;
    unfold C; rewrite log2_hi_lo by lia; lia ].
Ltac nbits_stage x0 hi C :=
  goal_term ltac:(fun t => let h := spine_head t in
    let E := fresh "E" in let tt := fresh "t" in
    assert (E : exists tt, h = (tt, 1 + Z.log2 C));
    [ nbits_tac x0 hi C | destruct E as [tt E]; rewrite E; clear E; cbv beta iota ]).
Ltac nbits_stage_ok x0 hi C :=
  goal_term ltac:(fun t => let h := spine_head t in
    let E := fresh "E" in let tt := fresh "t" in
    assert (E : exists tt, h = (true, tt, 1 + Z.log2 C));
    [ nbits_tac x0 hi C | destruct E as [tt E]; rewrite E; clear E; cbv beta iota ]).

(* the digit count from BID_NR_DIGITS (ImplTables.nr_digits_spec): row n = 1 + floor(log2 C) *)
Ltac digits_prelude C n HCn Hn D1 D2 D3 D4 D5 :=
  set (n := 1 + Z.log2 C) in *;
  assert (HCn : 2 ^ (n - 1) <= C < 2 ^ n) by
    (replace (n - 1) with (Z.log2 C) by (unfold n; lia); unfold n; rewrite Z.add_comm; apply log2_bounds; lia);
  assert (Hn : 1 <= n <= 113) by
    (split; [pose proof (Z.log2_nonneg C); unfold n; lia|];
     assert (Z.log2 C < 113) by (apply Z.log2_lt_pow2; [lia|]; change (2 ^ 113) with 10384593717069655257060992658440192; lia);
     unfold n; lia);
  rewrite ?(wrap_usize_id (n - 1)) by (unfold in_u64; lia);
  change (nth (Z.to_nat (n - 1)) T_BID_NR_DIGITS_digits 0) with (nrd_d n);
  change (nth (Z.to_nat (n - 1)) T_BID_NR_DIGITS_digits1 0) with (nrd_d1 n);
  change (nth (Z.to_nat (n - 1)) T_BID_NR_DIGITS_threshold_hi 0) with (nrd_hi n);
  change (nth (Z.to_nat (n - 1)) T_BID_NR_DIGITS_threshold_lo 0) with (nrd_lo n);
  destruct (nr_digits_spec n C Hn HCn) as (D1 & D2 & D3 & D4 & D5); unfold in_u64 in D3, D4.
(* value function: q1 is a zeta-inlined expression; every occurrence becomes ndigits C *)
Ltac digits_stage x0 hi C :=
  let n := fresh "n" in let HCn := fresh "HCn" in let Hn := fresh "Hn" in
  let D1 := fresh "D" in let D2 := fresh "D" in let D3 := fresh "D" in let D4 := fresh "D" in let D5 := fresh "D" in
  digits_prelude C n HCn Hn D1 D2 D3 D4 D5;
  match goal with |- context [if ?q <? 34 then _ else _] =>
    let Eq := fresh "Eq" in
    assert (Eq : q = ndigits C) by
      (rewrite D5; clear HCn D5; clearbody n; wrap_ids lia;
       destruct (nrd_d n =? 0); [|reflexivity];
       destruct (nrd_hi n * 18446744073709551616 + nrd_lo n <=? C) eqn:?;
       destruct ((hi >? nrd_hi n) || (hi =? nrd_hi n) && (x0 >=? nrd_lo n)) eqn:?; wrap_ids lia; unfold C in *; lia);
    rewrite !Eq; clear Eq
  end;
  clear D1 D2 D3 D4 D5 HCn Hn; clearbody n.
(* ok_ predicate: index guard, then q1 as a merged (ok, q1) pair *)
Ltac digits_stage_ok x0 hi C :=
  let n := fresh "n" in let HCn := fresh "HCn" in let Hn := fresh "Hn" in
  let D1 := fresh "D" in let D2 := fresh "D" in let D3 := fresh "D" in let D4 := fresh "D" in let D5 := fresh "D" in
  digits_prelude C n HCn Hn D1 D2 D3 D4 D5;
  guard_true lia;
  goal_term ltac:(fun t => let h := spine_head t in
    let E := fresh "E" in
    assert (E : h = (true, ndigits C));
    [ rewrite D5; clear HCn D5; clearbody n; wrap_ids lia; split_ifs_eq; wrap_ids lia;
      first [reflexivity | exfalso; unfold C in *; lia | f_equal; unfold C in *; lia]
    | rewrite E; clear E; cbv beta iota ]);
  clear D1 D2 D3 D4 D5 HCn Hn; clearbody n.

(* the zero padding: value (words of C * 10^k, new exponent field), k = nu_k nd be *)
Ltac pad_leaf x0 hi C PB :=
  try (exfalso; lia);
  try (exfalso; unfold wrap_usize, wrap_i32 in *; lia);
  wrap_ids lia; rewrite ?Z.sub_add;
  lazymatch goal with |- _ = ?RHS => lazymatch RHS with context [wlo (C * 10 ^ ?K)] =>
    try match goal with
    | |- context [i___mul_64x64_to_128MACH x0 (nth (Z.to_nat ?k) T_BID_TEN2K64 0)] =>
        replace x0 with C by (unfold C; lia); rewrite (pad_mach C k) by (unfold in_u64; lia)
    | |- context [i___mul_128x64_to_128 (nth (Z.to_nat ?k) T_BID_TEN2K64 0) x0 hi] =>
        rewrite (pad_128_b x0 hi k) by (first [unfold in_u64; lia | apply PB; lia]); change (v128 x0 hi) with C
    | |- context [i___mul_128x64_to_128 x0 (nth (Z.to_nat ?j) T_BID_TEN2K128_w0 0) _] =>
        replace x0 with C by (unfold C; lia); rewrite (pad_128_a C j K) by (first [unfold in_u64; lia | lia | apply PB; lia])
    end
  end end;
  cbv beta iota; rewrite ?Z.pow_0_r, ?Z.mul_1_r; unfold wlo, whi;
  repeat match goal with |- (_, _) = (_, _) => f_equal end; first [reflexivity | lia | unfold C; lia].
(* mk builds the expected tuple from the three values (value function: (a, b, c); ok_ predicate: (true, a, b, c)) *)
Ltac pad_stage_gen x0 hi C nd be mk :=
  let PB := fresh "PB" in let NS := fresh "NS" in
  assert (PB : forall k, 0 <= k -> nd + k <= 34 -> C * 10 ^ k < 10 ^ 34) by (intros; apply (pad_bound C nd); lia);
  assert (NS : nd <= 19 -> C < 10000000000000000000) by (apply nd_small; lia);
  goal_term ltac:(fun t => let h := spine_head t in
    let E := fresh "E" in
    let v := mk (wlo (C * 10 ^ nu_k nd be)) (whi (C * 10 ^ nu_k nd be)) ((be - nu_k nd be) * 562949953421312) in
    assert (E : h = v);
    [ unfold nu_k; rewrite ?wrap_i32_u64; word_norm lia; wrap_ids lia; rewrite ?Z.sub_add; split_ifs_eq; pad_leaf x0 hi C PB
    | rewrite E; clear E PB NS; cbv beta iota ]).
Ltac pad_stage x0 hi C nd be := pad_stage_gen x0 hi C nd be ltac:(fun a b c => constr:((a, b, c))).
Ltac pad_stage_ok x0 hi C nd be := pad_stage_gen x0 hi C nd be ltac:(fun a b c => constr:((true, a, b, c))).

(* the general leaf with the normalised coefficient and exponent as parameters (so that the context can be cleared) *)
Lemma nu_general2 x0 x1 st res C' e' : in_u64 x0 -> in_u64 x1 -> g5W x1 < 24 ->
  let C := hiW x1 * 18446744073709551616 + x0 in
  0 < C < T34 ->
  ~ (x1 = 6917508178773903296 /\ x0 = 4003012203950112767) ->
  C' = C * 10 ^ nu_k (ndigits C) (beW x1) -> e' = beW x1 - nu_k (ndigits C) (beW x1) ->
  res = (fst (stepW (sgW x1) (negb (sgW x1)) C' e'), snd (stepW (sgW x1) (negb (sgW x1)) C' e'), st) ->
  next_up_spec x0 x1 st res.
Proof.
  intros H0 H1 G C HC HM -> -> ->. apply nu_general; try assumption. cbv zeta. fold C. destruct (stepW _ _ _ _); reflexivity.
Qed.
Lemma nd_general2 x0 x1 st res C' e' : in_u64 x0 -> in_u64 x1 -> g5W x1 < 24 ->
  let C := hiW x1 * 18446744073709551616 + x0 in
  0 < C < T34 ->
  ~ (x1 = 16140880215628679104 /\ x0 = 4003012203950112767) ->
  C' = C * 10 ^ nu_k (ndigits C) (beW x1) -> e' = beW x1 - nu_k (ndigits C) (beW x1) ->
  res = (fst (stepW (sgW x1) (sgW x1) C' e'), snd (stepW (sgW x1) (sgW x1) C' e'), st) ->
  next_down_spec x0 x1 st res.
Proof.
  intros H0 H1 G C HC HM -> -> ->. apply nd_general; try assumption. cbv zeta. fold C. destruct (stepW _ _ _ _); reflexivity.
Qed.

(* the +-1 ulp step and the assembly of the result: the code's words are stepW's (Lgen is nu_general2 / nd_general2) *)
Ltac final_stage Lgen x0 x1 st H0 H1 HC C be nd :=
  let k := fresh "k" in let C' := fresh "C'" in let e' := fresh "e'" in let sgz := fresh "sgz" in
  destruct (nu_k_facts C be HC ltac:(lia)) as (NXK1 & NXK2 & NXK3 & NXK4); fold nd in NXK1, NXK2, NXK3, NXK4;
  set (k := nu_k nd be) in *; set (C' := C * 10 ^ k) in *; set (e' := be - k) in *;
  change (10 ^ 34) with 10000000000000000000000000000000000 in NXK3;
  change (10 ^ 33) with 1000000000000000000000000000000000 in NXK4;
  pose proof (sgZ_sgW x1 H1) as NXSZ; unfold sgZ in NXSZ;
  apply (Lgen x0 x1 st _ C' e'); [exact H0|exact H1|lia|exact HC|lia|reflexivity|reflexivity|];
  assert (NXE : 0 <= e' <= 12287) by lia;
  set (sgz := (x1 / 9223372036854775808) mod 2 * 9223372036854775808) in *;
  clearbody C' e' sgz; clear - NXK3 NXK4 NXE NXSZ;
  symmetry;
  destruct (sgW x1); subst sgz; cbn [negb];
  try change (9223372036854775808 =? 0) with false; try change (0 =? 0) with true; cbn [negb]; cbv beta iota;
  split_ifs_eq; cbv beta iota;
  unfold stepW, encW, T34, T33, wlo, whi, wrap_u64 in *;
  split_ifs_eq; cbn [fst snd]; try (exfalso; lia);
  rewrite lor3 by lia;
  repeat match goal with |- (_, _) = (_, _) => f_equal end; lia.

(* ---------- bid128_nextafter: NaN operands ---------- *)
Definition next_after_spec (x0 x1 y0 y1 st : Z) (res : Z * Z * Z) : Prop :=
  let '(r0, r1, st') := res in
  in_u64 r0 /\ in_u64 r1 /\
  exists fl, In ([pat r0 r1], fl) (m_next_after (pat x0 x1) (pat y0 y1)) /\ st' = Z.lor st fl.

Lemma nan_words x0 x1 : in_u64 x0 -> in_u64 x1 -> g5W x1 = 31 ->
  let p := (x1 mod 70368744177664) * 18446744073709551616 + x0 in
  let r0 := if p <? T33 then x0 else 0 in
  let r1 := sgZ x1 + 8935141660703064064 + (if p <? T33 then x1 mod 70368744177664 else 0) in
  in_u64 r0 /\ in_u64 r1 /\ is_nan (decode (pat x0 x1)) = true /\ encode (quiet (decode (pat x0 x1))) = pat r0 r1 /\
  is_snan (decode (pat x0 x1)) = (1 <=? (x1 / 144115188075855872) mod 2).
Proof.
  intros H0 H1 G. destruct (nan_leaf x0 x1 H0 H1 G) as (R0 & R1 & E). cbv zeta in *.
  split; [exact R0|]. split; [exact R1|]. revert E.
  rewrite decode_words by assumption. rewrite decodeW_g5. rewrite G. cbn [Z.eqb Pos.eqb].
  unfold nan_outcomes. cbn [existsb filter is_nan is_snan map quiet orb]. intros E. injection E as E1 E2.
  split; [reflexivity|]. split; [exact E1|]. destruct (1 <=? _); reflexivity.
Qed.
Lemma notnan_words x0 x1 : in_u64 x0 -> in_u64 x1 -> g5W x1 <> 31 ->
  is_nan (decode (pat x0 x1)) = false /\ is_snan (decode (pat x0 x1)) = false.
Proof.
  intros H0 H1 G. rewrite decode_words by assumption. rewrite decodeW_g5. replace (g5W x1 =? 31) with false by lia.
  destruct (30 <=? g5W x1); split; reflexivity.
Qed.

Lemma na_nan_x x0 x1 y0 y1 st r0 r1 st' : in_u64 x0 -> in_u64 x1 -> in_u64 y0 -> in_u64 y1 -> g5W x1 = 31 ->
  let p := (x1 mod 70368744177664) * 18446744073709551616 + x0 in
  r0 = (if p <? T33 then x0 else 0) ->
  r1 = sgZ x1 + 8935141660703064064 + (if p <? T33 then x1 mod 70368744177664 else 0) ->
  st' = (if (1 <=? (x1 / 144115188075855872) mod 2) || ((g5W y1 =? 31) && (1 <=? (y1 / 144115188075855872) mod 2)) then Z.lor st 1 else st) ->
  next_after_spec x0 x1 y0 y1 st (r0, r1, st').
Proof.
  intros H0 H1 G0 G1 G p -> -> ->. destruct (nan_words x0 x1 H0 H1 G) as (R0 & R1 & N & E & S). cbv zeta in *. fold p in R0, R1, E.
  unfold next_after_spec. split; [exact R0|]. split; [exact R1|].
  unfold m_next_after. rewrite N. cbn [orb]. unfold nan_outcomes. cbn [filter existsb]. rewrite N, S. cbn [map]. rewrite E.
  assert (SY : is_snan (decode (pat y0 y1)) = (g5W y1 =? 31) && (1 <=? (y1 / 144115188075855872) mod 2)).
  { destruct (Z.eqb_spec (g5W y1) 31) as [Gy|Gy].
    - destruct (nan_words y0 y1 G0 G1 Gy) as (_ & _ & _ & _ & Sy). exact Sy.
    - destruct (notnan_words y0 y1 G0 G1 Gy) as (_ & Sy). exact Sy. }
  rewrite SY. rewrite orb_false_r.
  eexists. split; [left; reflexivity|]. destruct (_ || _); [reflexivity|rewrite Z.lor_0_r; reflexivity].
Qed.
Lemma na_nan_y x0 x1 y0 y1 st r0 r1 st' : in_u64 x0 -> in_u64 x1 -> in_u64 y0 -> in_u64 y1 -> g5W x1 <> 31 -> g5W y1 = 31 ->
  let p := (y1 mod 70368744177664) * 18446744073709551616 + y0 in
  r0 = (if p <? T33 then y0 else 0) ->
  r1 = sgZ y1 + 8935141660703064064 + (if p <? T33 then y1 mod 70368744177664 else 0) ->
  st' = (if 1 <=? (y1 / 144115188075855872) mod 2 then Z.lor st 1 else st) ->
  next_after_spec x0 x1 y0 y1 st (r0, r1, st').
Proof.
  intros H0 H1 G0 G1 Gx G p -> -> ->. destruct (nan_words y0 y1 G0 G1 G) as (R0 & R1 & N & E & S). cbv zeta in *. fold p in R0, R1, E.
  destruct (notnan_words x0 x1 H0 H1 Gx) as (Nx & Sx).
  unfold next_after_spec. split; [exact R0|]. split; [exact R1|].
  unfold m_next_after. rewrite N, Nx. cbn [orb]. unfold nan_outcomes. cbn [filter existsb]. rewrite N, Nx, S, Sx. cbn [map orb]. rewrite E.
  eexists. split; [left; reflexivity|]. destruct (1 <=? _); [reflexivity|rewrite Z.lor_0_r; reflexivity].
Qed.

Lemma nan_or_g5 x0 x1 y0 y1 : in_u64 x0 -> in_u64 x1 -> in_u64 y0 -> in_u64 y1 ->
  is_nan (decode (pat x0 x1)) || is_nan (decode (pat y0 y1)) = true -> g5W x1 = 31 \/ g5W y1 = 31.
Proof.
  intros H0 H1 G0 G1 N. destruct (Z.eq_dec (g5W x1) 31) as [|Nx]; [left; assumption|].
  destruct (Z.eq_dec (g5W y1) 31) as [|Ny]; [right; assumption|exfalso].
  destruct (notnan_words x0 x1 H0 H1 Nx) as [A _]. destruct (notnan_words y0 y1 G0 G1 Ny) as [B _]. rewrite A, B in N. discriminate.
Qed.

Ltac na_leaf_x :=
  apply na_nan_x; [assumption|assumption|assumption|assumption|lia|..]; cbv zeta; unfold T33, sgZ; unfold g5W in *;
  [ match goal with |- context [?p <? ?t] => destruct (Z.ltb_spec p t) end; lia
  | match goal with |- context [?p <? ?t] => destruct (Z.ltb_spec p t) end; lia
  | match goal with |- context [(1 <=? ?b) || _] => destruct (Z.leb_spec 1 b) end; cbn [orb]; first [reflexivity | lia] ].
Ltac na_leaf_y :=
  apply na_nan_y; [assumption|assumption|assumption|assumption|lia|lia|..]; cbv zeta; unfold T33, sgZ; unfold g5W in *;
  [ match goal with |- context [?p <? ?t] => destruct (Z.ltb_spec p t) end; lia
  | match goal with |- context [?p <? ?t] => destruct (Z.ltb_spec p t) end; lia
  | match goal with |- context [1 <=? ?b] => destruct (Z.leb_spec 1 b) end; first [reflexivity | lia] ].

