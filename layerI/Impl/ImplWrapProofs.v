(* Layer I, group W: lrint / llrint / lround / llround are dispatch wrappers over the bid128_to_int64_* routines.  The callees
   are abstract function parameters of the translated wrappers and are bound here BY NAME (the parameters are made implicit
   positionally, then given as (a_bid128_to_int64_<variant> := f)): a wrapper that calls a different routine than the one the
   property names has no parameter of that name and the block no longer compiles; a harmless reordering of the match arms
   changes nothing.  Each theorem: IF every callee meets its model clause (spec64, ImplWrap.v; satisfiable: wit64_spec) THEN the
   wrapper meets the judge's clause for the operation (Judge.v: OLrint = m_to_int 64 true md true, OLround = m_to_int 64 true
   RNA false) for all operands, every RoundingMode discriminant 0..4 and every incoming status word.  The callees themselves
   are covered by the correspondence streams of C06 (every to-integer entry point), not by a layer-I theorem. *)
From Coq Require Import ZArith Lia Bool List ZifyBool.
From DV Require Import Base Bid OpsConv.
From DVI Require Import ImplLib ImplGen ImplCommon.
Import ListNotations.
Open Scope Z_scope.
(* HEADER END *)

(* BEGIN bid128_lrint *)
From DVI Require Import ImplWrap.
Arguments i_bid128_lrint {_ _ _ _ _} _ _ _ _.
Theorem I_bid128_lrint f0 f1 f2 f3 f4 :
  spec64 RNE true f0 -> spec64 RDN true f1 -> spec64 RUP true f2 -> spec64 RTZ true f3 -> spec64 RNA true f4 ->
  forall w0 w1 md st, in_u64 w0 -> in_u64 w1 -> 0 <= md <= 4 -> in_u32 st ->
  let '(r, st') := i_bid128_lrint (a_bid128_to_int64_xrnint := f0) (a_bid128_to_int64_xfloor := f1)
                     (a_bid128_to_int64_xceil := f2) (a_bid128_to_int64_xint := f3) (a_bid128_to_int64_xrninta := f4) w0 w1 md st in
  in_i64 r /\ exists fl, m_to_int 64 true (md_of md) true (pat w0 w1) = [([r mod 18446744073709551616], fl)] /\ st' = Z.lor st fl.
Proof.
  intros S0 S1 S2 S3 S4 w0 w1 md st H0 H1 Hmd Hst.
  specialize (S0 w0 w1 st H0 H1 Hst). specialize (S1 w0 w1 st H0 H1 Hst). specialize (S2 w0 w1 st H0 H1 Hst).
  specialize (S3 w0 w1 st H0 H1 Hst). specialize (S4 w0 w1 st H0 H1 Hst).
  unfold i_bid128_lrint.
  assert (C : md = 0 \/ md = 1 \/ md = 2 \/ md = 3 \/ md = 4) by lia.
  destruct C as [-> | [-> | [-> | [-> | ->]]]]; cbn [Z.eqb Pos.eqb md_of].
  - destruct (f0 w0 w1 st) as [r st']. exact S0.
  - destruct (f1 w0 w1 st) as [r st']. exact S1.
  - destruct (f2 w0 w1 st) as [r st']. exact S2.
  - destruct (f3 w0 w1 st) as [r st']. exact S3.
  - destruct (f4 w0 w1 st) as [r st']. exact S4.
Qed.
Print Assumptions I_bid128_lrint.
(* END bid128_lrint *)

(* BEGIN bid128_llrint *)
From DVI Require Import ImplWrap.
Arguments i_bid128_llrint {_ _ _ _ _} _ _ _ _.
Theorem I_bid128_llrint f0 f1 f2 f3 f4 :
  spec64 RNE true f0 -> spec64 RDN true f1 -> spec64 RUP true f2 -> spec64 RTZ true f3 -> spec64 RNA true f4 ->
  forall w0 w1 md st, in_u64 w0 -> in_u64 w1 -> 0 <= md <= 4 -> in_u32 st ->
  let '(r, st') := i_bid128_llrint (a_bid128_to_int64_xrnint := f0) (a_bid128_to_int64_xfloor := f1)
                     (a_bid128_to_int64_xceil := f2) (a_bid128_to_int64_xint := f3) (a_bid128_to_int64_xrninta := f4) w0 w1 md st in
  in_i64 r /\ exists fl, m_to_int 64 true (md_of md) true (pat w0 w1) = [([r mod 18446744073709551616], fl)] /\ st' = Z.lor st fl.
Proof.
  intros S0 S1 S2 S3 S4 w0 w1 md st H0 H1 Hmd Hst.
  specialize (S0 w0 w1 st H0 H1 Hst). specialize (S1 w0 w1 st H0 H1 Hst). specialize (S2 w0 w1 st H0 H1 Hst).
  specialize (S3 w0 w1 st H0 H1 Hst). specialize (S4 w0 w1 st H0 H1 Hst).
  unfold i_bid128_llrint.
  assert (C : md = 0 \/ md = 1 \/ md = 2 \/ md = 3 \/ md = 4) by lia.
  destruct C as [-> | [-> | [-> | [-> | ->]]]]; cbn [Z.eqb Pos.eqb md_of].
  - destruct (f0 w0 w1 st) as [r st']. exact S0.
  - destruct (f1 w0 w1 st) as [r st']. exact S1.
  - destruct (f2 w0 w1 st) as [r st']. exact S2.
  - destruct (f3 w0 w1 st) as [r st']. exact S3.
  - destruct (f4 w0 w1 st) as [r st']. exact S4.
Qed.
Print Assumptions I_bid128_llrint.
(* END bid128_llrint *)

(* BEGIN bid128_lround *)
From DVI Require Import ImplWrap.
Arguments i_bid128_lround {_} _ _ _.
Theorem I_bid128_lround f : spec64 RNA false f ->
  forall w0 w1 st, in_u64 w0 -> in_u64 w1 -> in_u32 st ->
  let '(r, st') := i_bid128_lround (a_bid128_to_int64_rninta := f) w0 w1 st in
  in_i64 r /\ exists fl, m_to_int 64 true RNA false (pat w0 w1) = [([r mod 18446744073709551616], fl)] /\ st' = Z.lor st fl.
Proof.
  intros S w0 w1 st H0 H1 Hst. specialize (S w0 w1 st H0 H1 Hst). unfold i_bid128_lround.
  destruct (f w0 w1 st) as [r st']. exact S.
Qed.
Print Assumptions I_bid128_lround.
(* END bid128_lround *)

(* BEGIN bid128_llround *)
From DVI Require Import ImplWrap.
Arguments i_bid128_llround {_} _ _ _.
Theorem I_bid128_llround f : spec64 RNA false f ->
  forall w0 w1 st, in_u64 w0 -> in_u64 w1 -> in_u32 st ->
  let '(r, st') := i_bid128_llround (a_bid128_to_int64_rninta := f) w0 w1 st in
  in_i64 r /\ exists fl, m_to_int 64 true RNA false (pat w0 w1) = [([r mod 18446744073709551616], fl)] /\ st' = Z.lor st fl.
Proof.
  intros S w0 w1 st H0 H1 Hst. specialize (S w0 w1 st H0 H1 Hst). unfold i_bid128_llround.
  destruct (f w0 w1 st) as [r st']. exact S.
Qed.
Print Assumptions I_bid128_llround.
(* END bid128_llround *)
