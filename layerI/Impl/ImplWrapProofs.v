(* Layer I, group W: lrint / llrint / lround / llround are dispatch wrappers over the bid128_to_int64_* routines.  The callees
   are abstract function parameters of the translated wrappers and are bound here BY NAME (the parameters are made implicit
   positionally, then given as (a_bid128_to_int64_<variant> := f)): a wrapper that calls a different routine than the one the
   property names has no parameter of that name and the block no longer compiles; a harmless reordering of the match arms
   changes nothing.  Each theorem: IF every callee meets its model clause (spec64, ImplWrap.v; satisfiable: wit64_spec) THEN the
   wrapper meets the judge's clause for the operation (Judge.v: OLrint = m_to_int 64 true md true, OLround = m_to_int 64 true
   RNA false) for all operands, every RoundingMode discriminant 0..4 and every incoming status word.  The callees themselves
   are covered by the correspondence streams of C06 (every to-integer entry point), not by a layer-I theorem. *)
From Coq Require Import ZArith Lia Bool List ZifyBool.
From DV Require Import Base Bid BidProofs OpsArith OpsCmp OpsMisc OpsConv.
From DVI Require Import ImplLib ImplGen ImplCommon.
Import ListNotations.
Open Scope Z_scope.
(* HEADER END *)

(* BEGIN bid128_lrint *)
From DVI Require Import ImplWrap.
Arguments i_bid128_lrint {_ _ _ _ _} _ _ _ _.
Theorem I_bid128_lrint f0 f1 f2 f3 f4 :
  spec64 RNE true f0 -> spec64 RDN true f1 -> spec64 RUP true f2 -> spec64 RTZ true f3 -> spec64 RNA true f4 ->
  forall w0 w1 md st, in_u64 w0 -> in_u64 w1 -> 0 <= md <= 4 -> in_u32 st ->
  let '(r, st') := i_bid128_lrint (a_bid128_to_int64_xrnint := f0) (a_bid128_to_int64_xfloor := f1)
                     (a_bid128_to_int64_xceil := f2) (a_bid128_to_int64_xint := f3) (a_bid128_to_int64_xrninta := f4) w0 w1 md st in
  in_i64 r /\ exists fl, m_to_int 64 true (md_of md) true (pat w0 w1) = [([r mod 18446744073709551616], fl)] /\ st' = Z.lor st fl.
Proof.
  intros S0 S1 S2 S3 S4 w0 w1 md st H0 H1 Hmd Hst.
  specialize (S0 w0 w1 st H0 H1 Hst). specialize (S1 w0 w1 st H0 H1 Hst). specialize (S2 w0 w1 st H0 H1 Hst).
  specialize (S3 w0 w1 st H0 H1 Hst). specialize (S4 w0 w1 st H0 H1 Hst).
  unfold i_bid128_lrint.
  assert (C : md = 0 \/ md = 1 \/ md = 2 \/ md = 3 \/ md = 4) by lia.
  destruct C as [-> | [-> | [-> | [-> | ->]]]]; cbn [Z.eqb Pos.eqb md_of].
  - destruct (f0 w0 w1 st) as [r st']. exact S0.
  - destruct (f1 w0 w1 st) as [r st']. exact S1.
  - destruct (f2 w0 w1 st) as [r st']. exact S2.
  - destruct (f3 w0 w1 st) as [r st']. exact S3.
  - destruct (f4 w0 w1 st) as [r st']. exact S4.
Qed.
Print Assumptions I_bid128_lrint.
(* END bid128_lrint *)

(* BEGIN bid128_llrint *)
From DVI Require Import ImplWrap.
Arguments i_bid128_llrint {_ _ _ _ _} _ _ _ _.
Theorem I_bid128_llrint f0 f1 f2 f3 f4 :
  spec64 RNE true f0 -> spec64 RDN true f1 -> spec64 RUP true f2 -> spec64 RTZ true f3 -> spec64 RNA true f4 ->
  forall w0 w1 md st, in_u64 w0 -> in_u64 w1 -> 0 <= md <= 4 -> in_u32 st ->
  let '(r, st') := i_bid128_llrint (a_bid128_to_int64_xrnint := f0) (a_bid128_to_int64_xfloor := f1)
                     (a_bid128_to_int64_xceil := f2) (a_bid128_to_int64_xint := f3) (a_bid128_to_int64_xrninta := f4) w0 w1 md st in
  in_i64 r /\ exists fl, m_to_int 64 true (md_of md) true (pat w0 w1) = [([r mod 18446744073709551616], fl)] /\ st' = Z.lor st fl.
Proof.
  intros S0 S1 S2 S3 S4 w0 w1 md st H0 H1 Hmd Hst.
  specialize (S0 w0 w1 st H0 H1 Hst). specialize (S1 w0 w1 st H0 H1 Hst). specialize (S2 w0 w1 st H0 H1 Hst).
  specialize (S3 w0 w1 st H0 H1 Hst). specialize (S4 w0 w1 st H0 H1 Hst).
  unfold i_bid128_llrint.
  assert (C : md = 0 \/ md = 1 \/ md = 2 \/ md = 3 \/ md = 4) by lia.
  destruct C as [-> | [-> | [-> | [-> | ->]]]]; cbn [Z.eqb Pos.eqb md_of].
  - destruct (f0 w0 w1 st) as [r st']. exact S0.
  - destruct (f1 w0 w1 st) as [r st']. exact S1.
  - destruct (f2 w0 w1 st) as [r st']. exact S2.
  - destruct (f3 w0 w1 st) as [r st']. exact S3.
  - destruct (f4 w0 w1 st) as [r st']. exact S4.
Qed.
Print Assumptions I_bid128_llrint.
(* END bid128_llrint *)

(* BEGIN bid128_lround *)
From DVI Require Import ImplWrap.
Arguments i_bid128_lround {_} _ _ _.
Theorem I_bid128_lround f : spec64 RNA false f ->
  forall w0 w1 st, in_u64 w0 -> in_u64 w1 -> in_u32 st ->
  let '(r, st') := i_bid128_lround (a_bid128_to_int64_rninta := f) w0 w1 st in
  in_i64 r /\ exists fl, m_to_int 64 true RNA false (pat w0 w1) = [([r mod 18446744073709551616], fl)] /\ st' = Z.lor st fl.
Proof.
  intros S w0 w1 st H0 H1 Hst. specialize (S w0 w1 st H0 H1 Hst). unfold i_bid128_lround.
  destruct (f w0 w1 st) as [r st']. exact S.
Qed.
Print Assumptions I_bid128_lround.
(* END bid128_lround *)

(* BEGIN bid128_llround *)
From DVI Require Import ImplWrap.
Arguments i_bid128_llround {_} _ _ _.
Theorem I_bid128_llround f : spec64 RNA false f ->
  forall w0 w1 st, in_u64 w0 -> in_u64 w1 -> in_u32 st ->
  let '(r, st') := i_bid128_llround (a_bid128_to_int64_rninta := f) w0 w1 st in
  in_i64 r /\ exists fl, m_to_int 64 true RNA false (pat w0 w1) = [([r mod 18446744073709551616], fl)] /\ st' = Z.lor st fl.
Proof.
  intros S w0 w1 st H0 H1 Hst. specialize (S w0 w1 st H0 H1 Hst). unfold i_bid128_llround.
  destruct (f w0 w1 st) as [r st']. exact S.
Qed.
Print Assumptions I_bid128_llround.
(* END bid128_llround *)

(* BEGIN bid128_fdim *)
From DVI Require Import ImplMul0 ImplMul ImplOrder ImplCmp.
(* bid128_fdim over the translated bid128_quiet_greater (its theorem V_bid128_quiet_greater is re-proved here with the tactics
   of ImplCmp.v, as in group G) and an abstract bid128_sub (bound by name).  IF the subtraction callee returns an outcome of
   m_sub with the status word or-ed, THEN fdim returns an outcome of m_fdim (OpsMisc.v) for all operand words, every mode discriminant and status word:
   NaN operands go to the subtraction (whose NaN outcomes are those of m_fdim: sub_nan), x > y goes to the subtraction,
   otherwise the canonical +0E0 with the status word untouched (the flags of the comparison are discarded). *)
Lemma nan_test w0 w1 : in_u64 w0 -> in_u64 w1 ->
  ((Z.land w1 0x7c00000000000000) =? 0x7c00000000000000) = is_nan (decode (pat w0 w1)).
Proof.
  intros H0 H1. rewrite decode_words by assumption. unfold in_u64 in *.
  open1 w0 w1 G; cbn [is_nan]; lia.
Qed.
Lemma sub_nan md x y : is_nan (decode x) || is_nan (decode y) = true -> m_sub md x y = nan_outcomes [decode x; decode y].
Proof.
  unfold m_sub, add_dec. destruct (decode x) as [sx cx qx|sx|sx gx px], (decode y) as [sy cy qy|sy|sy gy py];
    cbn [is_nan orb neg_dec set_sign sign_of]; intros E; try discriminate E; reflexivity.
Qed.
Lemma V_bid128_quiet_greater x0 x1 y0 y1 st : in_u64 x0 -> in_u64 x1 -> in_u64 y0 -> in_u64 y1 -> in_u32 st ->
  i_bid128_quiet_greater x0 x1 y0 y1 st = cmp_res 1 (pat x0 x1) (pat y0 y1) st.
Proof.
  intros Hx0 Hx1 Hy0 Hy1 Hst. unfold i_bid128_quiet_greater.
  cmp_open x0 x1 y0 y1 st 1. cmp_walk x1 y1. all: cmp_leaf.
Qed.
Definition spec_sub (f : Z -> Z -> Z -> Z -> Z -> Z -> Z * Z * Z) : Prop :=
  forall x0 x1 y0 y1 md st, in_u64 x0 -> in_u64 x1 -> in_u64 y0 -> in_u64 y1 -> 0 <= md <= 4 -> in_u32 st ->
    let '(r0, r1, st') := f x0 x1 y0 y1 md st in
    in_u64 r0 /\ in_u64 r1 /\ exists fl, In ([pat r0 r1], fl) (m_sub (md_of md) (pat x0 x1) (pat y0 y1)) /\ st' = Z.lor st fl.
Arguments i_bid128_fdim {_} _ _ _ _ _ _.
Theorem I_bid128_fdim fsub : spec_sub fsub ->
  forall x0 x1 y0 y1 md st, in_u64 x0 -> in_u64 x1 -> in_u64 y0 -> in_u64 y1 -> 0 <= md <= 4 -> in_u32 st ->
  let '(r0, r1, st') := i_bid128_fdim (a_bid128_sub := fsub) x0 x1 y0 y1 md st in
  in_u64 r0 /\ in_u64 r1 /\ exists fl, In ([pat r0 r1], fl) (m_fdim (md_of md) (pat x0 x1) (pat y0 y1)) /\ st' = Z.lor st fl.
Proof.
  intros Ssub x0 x1 y0 y1 md st Hx0 Hx1 Hy0 Hy1 Hmd Hst.
  pose proof (cmp_res_thm0 1 (pat x0 x1) (pat y0 y1) st (i_bid128_quiet_greater x0 x1 y0 y1 st)
                (V_bid128_quiet_greater x0 x1 y0 y1 st Hx0 Hx1 Hy0 Hy1 Hst)) as Sgt.
  specialize (Ssub x0 x1 y0 y1 md st Hx0 Hx1 Hy0 Hy1 Hmd Hst).
  unfold i_bid128_fdim, i_d128_new, m_fdim. cbv zeta.
  rewrite (nan_test x0 x1 Hx0 Hx1), (nan_test y0 y1 Hy0 Hy1).
  destruct (i_bid128_quiet_greater x0 x1 y0 y1 st) as [r stc]. destruct Sgt as (flc & Ec & _).
  destruct (fsub x0 x1 y0 y1 md st) as [[s0 s1] sts].
  set (dx := decode (pat x0 x1)) in *. set (dy := decode (pat y0 y1)) in *.
  destruct (is_nan dx || is_nan dy) eqn:EN.
  - (* a NaN operand: the subtraction's outcome *)
    replace (negb (is_nan dx) && negb (is_nan dy) && negb r) with false
      by (destruct (is_nan dx), (is_nan dy); cbn in EN |- *; try reflexivity; discriminate EN).
    pose proof (sub_nan (md_of md) (pat x0 x1) (pat y0 y1) EN) as SN. fold dx dy in SN. rewrite <- SN. exact Ssub.
  - apply orb_false_elim in EN. destruct EN as [ENx ENy]. rewrite ENx, ENy. cbn [negb andb].
    unfold m_cmp in Ec. fold dx dy in Ec. cbn [pred_rels existsb] in Ec.
    assert (Er : r = rel_eqb (cmp_dec dx dy) RGt).
    { injection Ec as Ec _. destruct r, (cmp_dec dx dy); cbn in Ec |- *; congruence. }
    destruct (cmp_dec dx dy) eqn:EC; cbn [rel_eqb] in Er; subst r; cbn [negb].
    3: exact Ssub.
    all: (split; [unfold in_u64; lia|]); (split; [unfold in_u64; lia|]); exists 0; (split; [|symmetry; apply Z.lor_0_r]);
         left; reflexivity.
Qed.
Print Assumptions I_bid128_fdim.
(* END bid128_fdim *)
