(* Layer I, group F: bid_get_BID128 (bid_internal.rs), the general BID128 pack routine (logical path DVI).
   V_bid_get_BID128: for every sign, coefficient below 10^34, i32 exponent, mode and incoming status word the generated
   code returns the two words of encode (fst r) and the status word st | flbits (snd r) (| underflow when the exponent is
   negative and st already holds inexact), r = rp md s C (expon - 6176) loc_Exact (expon - 6176) s: the value scale_fin
   hands to the model's rounding.  OK_bid_get_BID128: no run-time failure, and the padding loop ends within its fuel (36).
   Axiom-free. *)
From Coq Require Import ZArith Lia Bool List ZifyBool.
From Flocq Require Import Core.Core Calc.Bracket Calc.Round.
From DV Require Import Base Bid BidProofs Arith OpsArith OpsCmp OpsMisc ScaleProofs.
From DVI Require Import ImplLib ImplGen ImplCommon ImplMul0 ImplDpd ImplPack ImplRecip ImplRp ImplUF.
Import ListNotations.
Open Scope Z_scope.

(* one step of the padding loop: the coefficient is multiplied by ten with shifts and adds *)
Lemma mul10_step C0 C1 : in_u64 C0 -> in_u64 C1 -> v128 C0 C1 < 10 ^ 33 ->
  let w1 := wrap_u64 (wrap_u64 (wrap_u64 (wrap_u64 (Z.shiftl C1 3) + wrap_u64 (Z.shiftl C1 1)) + Z.shiftr C0 61) + Z.shiftr C0 63) in
  let tmp2 := wrap_u64 (Z.shiftl C0 3) in
  let w0 := wrap_u64 (wrap_u64 (Z.shiftl C0 1) + tmp2) in
  let w1' := if w0 <? tmp2 then wrap_u64 (w1 + 1) else w1 in
  in_u64 w0 /\ in_u64 w1' /\ v128 w0 w1' = 10 * v128 C0 C1.
Proof.
  intros H0 H1 HC. cbv zeta. rewrite !Z.shiftl_mul_pow2, !Z.shiftr_div_pow2 by lia.
  unfold wrap_u64, v128, in_u64 in *. change (10 ^ 33) with 1000000000000000000000000000000000 in HC.
  change (2 ^ 3) with 8. change (2 ^ 1) with 2. change (2 ^ 61) with 2305843009213693952. change (2 ^ 63) with 9223372036854775808.
  assert (HC1 : C1 < 54210108624276) by lia.
  destruct (Z.ltb_spec ((C0 * 2 mod 18446744073709551616 + C0 * 8 mod 18446744073709551616) mod 18446744073709551616) (C0 * 8 mod 18446744073709551616));
  dlia.
Qed.

Definition T33_w0 := 0x38c15b0a00000000.
Definition T33_w1 := 0x314dc6448d93.

Lemma gt_T33 C0 C1 : in_u64 C0 -> in_u64 C1 ->
  i___unsigned_compare_gt_128 T33_w0 T33_w1 C0 C1 = (v128 C0 C1 <? 10 ^ 33).
Proof.
  intros H0 H1. unfold i___unsigned_compare_gt_128, T33_w0, T33_w1, v128, in_u64 in *.
  change (10 ^ 33) with 1000000000000000000000000000000000. lia.
Qed.

Lemma pack_word1 sgn ex C1 : (sgn = 0 \/ sgn = 9223372036854775808) -> 0 <= ex <= 12287 -> 0 <= C1 < 562949953421312 ->
  Z.lor (Z.lor sgn (wrap_u64 (Z.shiftl (wrap_u64 ex) 49))) C1 = sgn + ex * 562949953421312 + C1.
Proof.
  intros Hs He H1. rewrite (wrap_u64_id ex) by (unfold in_u64; lia). rewrite Z.shiftl_mul_pow2 by lia.
  change (2 ^ 49) with 562949953421312. rewrite wrap_u64_id by (unfold in_u64; lia).
  rewrite (lor_mult_low (ex * 562949953421312) sgn 63 9223372036854775808) by (try reflexivity; try lia; destruct Hs as [-> | ->]; reflexivity).
  apply (lor_mult_low C1 _ 49 562949953421312); try reflexivity; try lia.
Qed.

Lemma encode_words sgn ex C0 C1 : (sgn = 0 \/ sgn = 9223372036854775808) -> 0 <= ex <= 12287 -> in_u64 C0 -> 0 <= C1 < 562949953421312 ->
  encode (Fin (sbit sgn) (v128 C0 C1) (ex - 6176)) mod 18446744073709551616 = C0 /\
  encode (Fin (sbit sgn) (v128 C0 C1) (ex - 6176)) / 18446744073709551616 = sgn + ex * 562949953421312 + C1.
Proof.
  intros Hs He H0 H1. unfold encode, sbit, v128, P127, P113, in_u64 in *.
  destruct Hs as [-> | ->]; cbn [Z.eqb negb]; clear - He H0 H1; dlia.
Qed.

Lemma loop_pad fuel : forall C0 C1 expon, in_u64 C0 -> in_u64 C1 -> v128 C0 C1 < 10 ^ 34 -> in_i32 expon ->
  Z.max 0 (expon - 12287) < Z.of_nat fuel ->
  exists j, 0 <= j /\ (12287 < expon -> j <= expon - 12287) /\ (expon <= 12287 -> j = 0) /\
    let C' := v128 C0 C1 * 10 ^ j in
    C' < 10 ^ 34 /\ (12287 < expon - j -> 10 ^ 33 <= C') /\
    loop_bid_get_BID128_1 fuel T33_w0 T33_w1 C0 C1 expon = (C' mod 18446744073709551616, C' / 18446744073709551616, expon - j) /\
    okloop_bid_get_BID128_1 fuel T33_w0 T33_w1 C0 C1 expon = true.
Proof.
  induction fuel as [|f IH]; intros C0 C1 expon H0 H1 HC He Hf.
  - exfalso. lia.
  - cbn [loop_bid_get_BID128_1 okloop_bid_get_BID128_1]. rewrite gt_T33 by assumption.
    destruct (Z.ltb_spec (v128 C0 C1) (10 ^ 33)) as [Hlt|Hge]; cbn [andb].
    2:{ exists 0. change (10 ^ 0) with 1. rewrite Z.mul_1_r. repeat split; try lia.
        unfold v128, in_u64 in *. f_equal; [f_equal|]; dlia. }
    destruct (Z.gtb_spec expon 12287) as [Hgt|Hle].
    2:{ exists 0. change (10 ^ 0) with 1. rewrite Z.mul_1_r. repeat split; try lia.
        unfold v128, in_u64 in *. f_equal; [f_equal|]; dlia. }
    pose proof (mul10_step C0 C1 H0 H1 Hlt) as M. cbv zeta in M. cbv zeta.
    set (w0 := wrap_u64 (wrap_u64 (Z.shiftl C0 1) + wrap_u64 (Z.shiftl C0 3))) in *.
    set (w1 := if w0 <? wrap_u64 (Z.shiftl C0 3) then _ else _) in M.
    destruct M as (M0 & M1 & MV).
    assert (Ew : wrap_i32 (expon - 1) = expon - 1) by (apply wrap_i32_id; unfold in_i32 in *; lia).
    rewrite Ew.
    destruct (IH w0 w1 (expon - 1) M0 M1 ltac:(rewrite MV; change (10 ^ 34) with (10 * 10 ^ 33); lia)
                ltac:(unfold in_i32 in *; lia) ltac:(lia)) as (j & J0 & J1 & J2 & J3).
    cbv zeta in J3. destruct J3 as (J3 & J4 & J5 & J6).
    exists (j + 1). rewrite Z.pow_add_r by lia. change (10 ^ 1) with 10.
    replace (v128 C0 C1 * (10 ^ j * 10)) with (v128 w0 w1 * 10 ^ j) by (rewrite MV; ring).
    replace (expon - (j + 1)) with (expon - 1 - j) by ring.
    split; [lia|]. split; [intros; destruct (Z_lt_le_dec 12287 (expon - 1)); lia|]. split; [lia|].
    split; [exact J3|]. split; [exact J4|].
    split.
    + rewrite <- J5. destruct (w0 <? wrap_u64 (Z.shiftl C0 3)); reflexivity.
    + unfold w1 in J6. destruct (w0 <? wrap_u64 (Z.shiftl C0 3)); cbv beta iota; exact J6.
Qed.

Definition bgb_status (st expon fl : Z) : Z :=
  Z.lor (Z.lor st fl) (if (expon <? 0) && (Z.land st 32 =? 32) then 16 else 0).

Lemma overflow_words sgn rnd : (sgn = 0 \/ sgn = 9223372036854775808) -> 0 <= rnd <= 4 ->
  (let '(pres_w1, pres_w0) :=
       if (rnd =? 3) || negb (sgn =? 0) && (rnd =? 2) || (sgn =? 0) && (rnd =? 1)
       then (Z.lor sgn 6917508178773903296, 4003012203950112767)
       else (Z.lor sgn 8646911284551352320, 0) in (pres_w0, pres_w1)) =
  (encode (overflow_result (md_of rnd) (sbit sgn)) mod 18446744073709551616,
   encode (overflow_result (md_of rnd) (sbit sgn)) / 18446744073709551616).
Proof.
  intros Hs Hr.
  assert (rnd = 0 \/ rnd = 1 \/ rnd = 2 \/ rnd = 3 \/ rnd = 4) as [->|[->|[->|[->| ->]]]] by lia;
  destruct Hs as [-> | ->]; vm_compute; reflexivity.
Qed.

Theorem V_bid_get_BID128 sgn expon C0 C1 rnd st : (sgn = 0 \/ sgn = 9223372036854775808) -> in_i32 expon ->
  in_u64 C0 -> in_u64 C1 -> v128 C0 C1 < 10 ^ 34 -> 0 <= rnd <= 4 -> in_u32 st ->
  (0 < v128 C0 C1 \/ -34 <= expon) ->
  let r := rp (md_of rnd) (sbit sgn) (v128 C0 C1) (expon - 6176) loc_Exact (expon - 6176) (sbit sgn) in
  i_bid_get_BID128 sgn expon C0 C1 rnd st =
  (encode (fst r) mod 18446744073709551616, encode (fst r) / 18446744073709551616, bgb_status st expon (flbits (snd r))).
Proof.
  intros Hs He H0 H1 HC Hr Hst Hnz r.
  assert (E10 : (C1 =? 0x1ed09bead87c0) && (C0 =? 0x378d8e6400000000) = false).
  { unfold v128, in_u64 in *. change (10 ^ 34) with 10000000000000000000000000000000000 in HC. clear - H0 H1 HC. lia. }
  assert (HC1 : 0 <= C1 < 562949953421312).
  { unfold v128, in_u64 in *. change (10 ^ 34) with 10000000000000000000000000000000000 in HC. clear - H0 H1 HC. lia. }
  assert (HC0 : 0 <= v128 C0 C1) by (unfold v128, in_u64 in *; lia).
  unfold i_bid_get_BID128. unfold_helpers. red_lets. rewrite E10. cbv beta iota.
  unfold bgb_status.
  destruct (Z.ltb_spec expon 0) as [Hneg|Hnn].
  - (* below the range *)
    replace (0 <=? expon) with false by (symmetry; apply Z.leb_gt; lia). cbn [andb negb].
    rewrite (I_handle_UF_128 sgn expon C0 C1 rnd st Hs ltac:(unfold in_i32 in He; lia) H0 H1 HC Hr Hst Hnz).
    fold r. reflexivity.
  - replace (0 <=? expon) with true by (symmetry; apply Z.leb_le; lia). cbn [andb]. rewrite Z.lor_0_r.
    destruct (Z.leb_spec expon 12287) as [Hin|Hbig]; cbn [negb].
    + (* in range *)
      rewrite pack_word1 by (try assumption; lia).
      assert (ER : encode (fst r) = encode (Fin (sbit sgn) (v128 C0 C1) (expon - 6176)) /\ flbits (snd r) = 0).
      { destruct (Z.eq_dec (v128 C0 C1) 0) as [EC|NC].
        - unfold r. rewrite EC, rp_zero. cbn [fst snd]. replace (clampq (expon - 6176)) with (expon - 6176) by (unfold clampq, qmin, qmax; lia).
          split; reflexivity.
        - destruct (rp_cases (md_of rnd) (sbit sgn) (v128 C0 C1) (expon - 6176) ltac:(lia)) as [A _].
          apply A. unfold qmin, qmax. lia. }
      destruct ER as [-> ->]. rewrite Z.lor_0_r.
      destruct (encode_words sgn expon C0 C1 Hs ltac:(lia) H0 HC1) as [-> ->]. reflexivity.
    + (* above the range: pad the coefficient, then overflow unless the excess was absorbed *)
      set (C := v128 C0 C1) in *.
      assert (PAD : exists j, 0 <= j <= expon - 12287 /\ C * 10 ^ j < 10 ^ 34 /\
                (12287 < expon - j -> C = 0 \/ 10 ^ 34 <= C * 10 ^ (expon - 12287)) /\
                (if wrap_i32 (expon - wrap_i32 34) <=? 12287
                 then let '(coeff_w0, coeff_w1, expon0) :=
                        loop_bid_get_BID128_1 36 (nth (Z.to_nat (wrap_u32 (34 - 1))) T_BID_POWER10_TABLE_128_w0 0)
                          (nth (Z.to_nat (wrap_u32 (34 - 1))) T_BID_POWER10_TABLE_128_w1 0) C0 C1 expon in (coeff_w1, coeff_w0, expon0)
                 else (C1, C0, expon)) =
                ((C * 10 ^ j) / 18446744073709551616, (C * 10 ^ j) mod 18446744073709551616, expon - j)).
      { change (wrap_i32 34) with 34. rewrite (wrap_i32_id (expon - 34)) by (unfold in_i32 in *; lia).
        destruct (Z.leb_spec (expon - 34) 12287) as [Hl|Hl].
        - change (nth (Z.to_nat (wrap_u32 (34 - 1))) T_BID_POWER10_TABLE_128_w0 0) with T33_w0.
          change (nth (Z.to_nat (wrap_u32 (34 - 1))) T_BID_POWER10_TABLE_128_w1 0) with T33_w1.
          destruct (loop_pad 36 C0 C1 expon H0 H1 HC He ltac:(change (Z.of_nat 36) with 36; lia)) as (j & J0 & J1 & _ & J3).
          cbv zeta in J3. destruct J3 as (J3 & J4 & J5 & _). fold C in J3, J4, J5.
          exists j. split; [lia|]. split; [exact J3|]. split.
          + intros Hj. right. specialize (J4 Hj).
            assert (10 ^ (j + 1) <= 10 ^ (expon - 12287)) by (apply Z.pow_le_mono_r; lia).
            rewrite Z.pow_add_r in * by lia. change (10 ^ 1) with 10 in *. change (10 ^ 34) with (10 * 10 ^ 33). nia.
          + rewrite J5. reflexivity.
        - exists 0. change (10 ^ 0) with 1. rewrite Z.mul_1_r, Z.sub_0_r. split; [lia|]. split; [exact HC|]. split.
          + intros _. destruct (Z.eq_dec C 0); [left; assumption|right].
            assert (10 ^ 34 <= 10 ^ (expon - 12287)) by (apply Z.pow_le_mono_r; lia).
            assert (0 < 10 ^ (expon - 12287)) by (apply Z.pow_pos_nonneg; lia). nia.
          + replace (C / 18446744073709551616) with C1 by (unfold C, v128, in_u64 in *; clear - H0 H1; dlia).
            replace (C mod 18446744073709551616) with C0 by (unfold C, v128, in_u64 in *; clear - H0 H1; dlia). reflexivity. }
      destruct PAD as (j & Hj & HCj & Hov & ->). cbv beta iota.
      set (C' := C * 10 ^ j) in *.
      assert (HPj : 0 < 10 ^ j) by (apply Z.pow_pos_nonneg; lia).
      assert (HC'0 : 0 <= C') by (unfold C'; nia).
      assert (Hw0 : in_u64 (C' mod 18446744073709551616)) by (unfold in_u64; apply Z.mod_pos_bound; lia).
      assert (Hw1 : 0 <= C' / 18446744073709551616 < 562949953421312).
      { change (10 ^ 34) with 10000000000000000000000000000000000 in HCj. clear - HCj HC'0. dlia. }
      assert (EV : v128 (C' mod 18446744073709551616) (C' / 18446744073709551616) = C') by (unfold v128; clear; dlia).
      destruct (Z.gtb_spec (expon - j) 12287) as [Hgt|Hle].
      * destruct (Hov Hgt) as [EC|OV].
        -- (* zero: the largest exponent *)
           assert (EC' : C' = 0) by (unfold C'; rewrite EC; reflexivity).
           rewrite EC'. cbn [Z.div Z.modulo Z.div_eucl Z.lor Z.eqb].
           unfold r. rewrite EC, rp_zero. cbn [fst snd]. change (flbits _) with 0. rewrite Z.lor_0_r.
           replace (clampq (expon - 6176)) with (12287 - 6176) by (unfold clampq, qmin, qmax; lia).
           destruct (encode_words sgn 12287 0 0 Hs ltac:(lia) ltac:(unfold in_u64; lia) ltac:(lia)) as [E1 E2].
           change (v128 0 0) with 0 in E1, E2. rewrite E1, E2.
           rewrite <- (Z.lor_0_r (Z.lor sgn _)). rewrite pack_word1 by (try assumption; lia). reflexivity.
        -- assert (NZ : (Z.lor (C' / 18446744073709551616) (C' mod 18446744073709551616) =? 0) = false).
           { apply Z.eqb_neq. intros E. apply Z.lor_eq_0_iff in E. destruct E as [E1 E2].
             assert (C' = 0) by (clear - E1 E2; dlia).
             assert (C = 0) by (unfold C' in *; nia).
             subst C. rewrite H2 in OV. rewrite Z.mul_0_l in OV. assert (0 < 10 ^ 34) by reflexivity. lia. }
           rewrite NZ.
           destruct (rp_cases (md_of rnd) (sbit sgn) C (expon - 6176) ltac:(destruct (Z.eq_dec C 0) as [E|E]; [rewrite E, Z.mul_0_l in OV; assert (0 < 10 ^ 34) by reflexivity; lia|lia])) as (_ & _ & A).
           destruct A as [A1 A2]; [unfold qmax; lia|replace (expon - 6176 - qmax) with (expon - 12287) by (unfold qmax; lia); exact OV|].
           fold r in A1, A2. rewrite A1, A2.
           pose proof (overflow_words sgn rnd Hs Hr) as OW.
           destruct (if (rnd =? 3) || negb (sgn =? 0) && (rnd =? 2) || (sgn =? 0) && (rnd =? 1)
                     then (Z.lor sgn 6917508178773903296, 4003012203950112767) else (Z.lor sgn 8646911284551352320, 0)) as [p1 p0].
           injection OW as -> ->. reflexivity.
      * (* the excess is absorbed by zero padding *)
        assert (Ej : expon - j = 12287) by lia. rewrite Ej.
        rewrite pack_word1 by (try assumption; lia).
        assert (ER : encode (fst r) = encode (Fin (sbit sgn) C' (12287 - 6176)) /\ flbits (snd r) = 0).
        { destruct (Z.eq_dec C 0) as [EC|NC].
          - unfold r, C'. rewrite EC, rp_zero. cbn [fst snd]. replace (clampq (expon - 6176)) with (12287 - 6176) by (unfold clampq, qmin, qmax; lia).
            split; reflexivity.
          - destruct (rp_cases (md_of rnd) (sbit sgn) C (expon - 6176) ltac:(lia)) as (_ & A & _).
            replace (expon - 6176 - qmax) with j in A by (unfold qmax; lia). fold C' in A.
            apply A; [unfold qmax; lia|exact HCj]. }
        destruct ER as [-> ->]. rewrite Z.lor_0_r.
        destruct (encode_words sgn 12287 _ _ Hs ltac:(lia) Hw0 Hw1) as [E1 E2]. rewrite EV in E1, E2.
        rewrite E1, E2. reflexivity.
Qed.

Theorem OK_bid_get_BID128 sgn expon C0 C1 rnd st : in_i32 expon ->
  in_u64 C0 -> in_u64 C1 -> v128 C0 C1 < 10 ^ 34 -> 0 <= rnd <= 4 ->
  ok_bid_get_BID128 sgn expon C0 C1 rnd st = true.
Proof.
  intros He H0 H1 HC Hr.
  assert (E10 : (C1 =? 0x1ed09bead87c0) && (C0 =? 0x378d8e6400000000) = false).
  { unfold v128, in_u64 in *. change (10 ^ 34) with 10000000000000000000000000000000000 in HC. clear - H0 H1 HC. lia. }
  unfold ok_bid_get_BID128. unfold_helpers. red_lets. rewrite E10. cbv beta iota.
  destruct (Z.ltb_spec expon 0) as [Hneg|Hnn].
  - replace (0 <=? expon) with false by (symmetry; apply Z.leb_gt; lia). cbn [andb negb].
    rewrite OK_handle_UF by (unfold in_i32 in *; lia).
    destruct (i_handle_UF_128 sgn expon C0 C1 rnd st) as [[? ?] ?]. reflexivity.
  - replace (0 <=? expon) with true by (symmetry; apply Z.leb_le; lia). cbn [andb].
    destruct (Z.leb_spec expon 12287) as [Hin|Hbig]; cbn [negb]; [reflexivity|].
    change (wrap_i32 34) with 34. rewrite (wrap_i32_id (expon - 34)) by (unfold in_i32 in *; lia).
    change ((0 <=? wrap_u32 (34 - 1)) && (wrap_u32 (34 - 1) <? 39)) with true. cbv beta iota.
    change (nth (Z.to_nat (wrap_u32 (34 - 1))) T_BID_POWER10_TABLE_128_w0 0) with T33_w0.
    change (nth (Z.to_nat (wrap_u32 (34 - 1))) T_BID_POWER10_TABLE_128_w1 0) with T33_w1.
    destruct (Z.leb_spec (expon - 34) 12287) as [Hl|Hl].
    + destruct (loop_pad 36 C0 C1 expon H0 H1 HC He ltac:(change (Z.of_nat 36) with 36; lia)) as (j & _ & _ & _ & J3).
      cbv zeta in J3. destruct J3 as (_ & _ & J5 & J6). rewrite J6, J5. cbv beta iota.
      split_ifs_eq; reflexivity.
    + cbv beta iota. split_ifs_eq; reflexivity.
Qed.
