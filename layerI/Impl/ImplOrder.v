(* Layer I: the model's totalOrder on constructor forms, as needed to follow the case structure of
   bid128_total_order / bid128_total_order_mag (logical path DVI). Axiom-free (integers only). *)
From Coq Require Import ZArith Lia Bool List.
From Flocq Require Import Core.Zaux Core.Digits.
From DV Require Import Base Bid BidProofs Arith OpsArith OpsCmp TotalProofs.
Import ListNotations.
Open Scope Z_scope.

Lemma tl_NaN_NaN sx sgx px sy sgy py : total_le (NaN sx sgx px) (NaN sy sgy py) =
  if sx then (if sy then (if Bool.eqb sgx sgy then py <=? px else sgy) else true)
  else (if sy then false else (if Bool.eqb sgx sgy then px <=? py else sgx)).
Proof. destruct sx, sy, sgx, sgy; reflexivity. Qed.

Lemma tl_NaN_other sx sg p d : is_nan d = false -> total_le (NaN sx sg p) d = sx.
Proof.
  destruct d as [s c q|s|s sg' p']; intros H; try discriminate; unfold total_le; cbn [sign_of];
  destruct sx, s, sg; unfold total_le_mag, class_rank; try destruct (c =? 0); reflexivity.
Qed.

Lemma tl_other_NaN sy sg p d : is_nan d = false -> total_le d (NaN sy sg p) = negb sy.
Proof.
  destruct d as [s c q|s|s sg' p']; intros H; try discriminate; unfold total_le; cbn [sign_of];
  destruct sy, s, sg; unfold total_le_mag, class_rank; try destruct (c =? 0); reflexivity.
Qed.

Lemma tl_sign_diff dx dy : sign_of dx = negb (sign_of dy) -> total_le dx dy = sign_of dx.
Proof. intros H. unfold total_le. rewrite H. destruct (sign_of dy); reflexivity. Qed.

Lemma tl_Inf_Inf s : total_le (Inf s) (Inf s) = true.
Proof. destruct s; reflexivity. Qed.
Lemma tl_Inf_Fin s c q : total_le (Inf s) (Fin s c q) = s.
Proof. unfold total_le. cbn [sign_of]. destruct s; unfold total_le_mag, class_rank; destruct (c =? 0); reflexivity. Qed.
Lemma tl_Fin_Inf s c q : total_le (Fin s c q) (Inf s) = negb s.
Proof. unfold total_le. cbn [sign_of]. destruct s; unfold total_le_mag, class_rank; destruct (c =? 0); reflexivity. Qed.

Lemma tl_zero_zero s qx qy : total_le (Fin s 0 qx) (Fin s 0 qy) = if s then qy <=? qx else qx <=? qy.
Proof. destruct s; reflexivity. Qed.
Lemma tl_zero_nz s qx cy qy : cy <> 0 -> total_le (Fin s 0 qx) (Fin s cy qy) = negb s.
Proof.
  intros H. unfold total_le. cbn [sign_of]. destruct s; unfold total_le_mag, class_rank;
  destruct (Z.eqb_spec cy 0); try contradiction; reflexivity.
Qed.
Lemma tl_nz_zero s cx qx qy : cx <> 0 -> total_le (Fin s cx qx) (Fin s 0 qy) = s.
Proof.
  intros H. unfold total_le. cbn [sign_of]. destruct s; unfold total_le_mag, class_rank;
  destruct (Z.eqb_spec cx 0); try contradiction; reflexivity.
Qed.

(* two non-zero finite data of the same sign, exponents given biased (e = q + 6176 >= 0) *)
Lemma tl_fin_fin s cx ex cy ey : 0 < cx -> 0 < cy -> 0 <= ex -> 0 <= ey ->
  total_le (Fin s cx (ex - 6176)) (Fin s cy (ey - 6176)) =
  match cx * 10 ^ ex ?= cy * 10 ^ ey with
  | Lt => negb s
  | Gt => s
  | Eq => if s then ey <=? ex else ex <=? ey
  end.
Proof.
  intros Hcx Hcy Hex Hey.
  assert (Kx : vkey cx (ex - 6176) = cx * 10 ^ ex) by (unfold vkey; f_equal; f_equal; lia).
  assert (Ky : vkey cy (ey - 6176) = cy * 10 ^ ey) by (unfold vkey; f_equal; f_equal; lia).
  unfold total_le. cbn [sign_of]. unfold total_le_mag, class_rank.
  destruct (Z.eqb_spec cx 0); [lia|]. destruct (Z.eqb_spec cy 0); [lia|]. cbn [Z.ltb Z.compare].
  destruct s.
  - rewrite (cmp_mag_key cy (ey - 6176) cx (ex - 6176)) by lia. rewrite Kx, Ky.
    rewrite (Z.compare_antisym (cy * 10 ^ ey) (cx * 10 ^ ex)).
    destruct (cy * 10 ^ ey ?= cx * 10 ^ ex); cbn [CompOpp negb]; try reflexivity.
    destruct (Z.leb_spec (ey - 6176) (ex - 6176)); destruct (Z.leb_spec ey ex); try reflexivity; lia.
  - rewrite (cmp_mag_key cx (ex - 6176) cy (ey - 6176)) by lia. rewrite Kx, Ky.
    destruct (cx * 10 ^ ex ?= cy * 10 ^ ey); cbn [negb]; try reflexivity.
    destruct (Z.leb_spec (ex - 6176) (ey - 6176)); destruct (Z.leb_spec ex ey); try reflexivity; lia.
Qed.

Lemma cmp_scale_l cx cy ex ey : 0 <= ey <= ex -> (cx * 10 ^ ex ?= cy * 10 ^ ey) = (cx * 10 ^ (ex - ey) ?= cy).
Proof.
  intros H. replace ex with ((ex - ey) + ey) at 1 by lia. rewrite Z.pow_add_r by lia. rewrite Z.mul_assoc.
  symmetry. apply Zmult_compare_compat_r. apply Z.lt_gt, pow10_pos. lia.
Qed.
Lemma cmp_scale_r cx cy ex ey : 0 <= ex <= ey -> (cx * 10 ^ ex ?= cy * 10 ^ ey) = (cx ?= cy * 10 ^ (ey - ex)).
Proof.
  intros H. replace ey with ((ey - ex) + ex) at 1 by lia. rewrite Z.pow_add_r by lia. rewrite Z.mul_assoc.
  symmetry. apply Zmult_compare_compat_r. apply Z.lt_gt, pow10_pos. lia.
Qed.

Lemma pow10_ge_34 d : 33 < d -> 10000000000000000000000000000000000 <= 10 ^ d.
Proof. intros H. change 10000000000000000000000000000000000 with (10 ^ 34). apply Z.pow_le_mono_r; lia. Qed.
Lemma pow10_ge_1 d : 0 <= d -> 1 <= 10 ^ d.
Proof. intros H. pose proof (pow10_pos d H). lia. Qed.

Lemma cmp_gt cx cy ex ey : 0 < cy < cx -> 0 <= ey <= ex -> (cx * 10 ^ ex ?= cy * 10 ^ ey) = Gt.
Proof.
  intros Hc He. rewrite cmp_scale_l by lia. apply Z.compare_gt_iff. pose proof (pow10_ge_1 (ex - ey) ltac:(lia)). nia.
Qed.
Lemma cmp_lt cx cy ex ey : 0 < cx < cy -> 0 <= ex <= ey -> (cx * 10 ^ ex ?= cy * 10 ^ ey) = Lt.
Proof.
  intros Hc He. rewrite cmp_scale_r by lia. apply Z.compare_lt_iff. pose proof (pow10_ge_1 (ey - ex) ltac:(lia)). nia.
Qed.
Lemma cmp_far_gt cx cy ex ey : 0 < cx -> cy < 10000000000000000000000000000000000 -> 0 <= ey -> 33 < ex - ey ->
  (cx * 10 ^ ex ?= cy * 10 ^ ey) = Gt.
Proof.
  intros Hx Hy He Hd. rewrite cmp_scale_l by lia. apply Z.compare_gt_iff. pose proof (pow10_ge_34 (ex - ey) Hd). nia.
Qed.
Lemma cmp_far_lt cx cy ex ey : cx < 10000000000000000000000000000000000 -> 0 < cy -> 0 <= ex -> 33 < ey - ex ->
  (cx * 10 ^ ex ?= cy * 10 ^ ey) = Lt.
Proof.
  intros Hx Hy He Hd. rewrite cmp_scale_r by lia. apply Z.compare_lt_iff. pose proof (pow10_ge_34 (ey - ex) Hd). nia.
Qed.
