(* Layer I, group W (dispatch wrappers lrint / llrint / lround / llround): the clause the callees are assumed to meet, and a
   function that meets it (so the hypotheses of the wrapper theorems are satisfiable).  The ten bid128_to_int64_* routines
   are NOT translated for this group: rs2v.py models them as function parameters a_bid128_to_int64_* of the wrappers
   (rs2v.ABSTRACT), and the theorems of ImplWrapProofs.v are conditional on spec64 for each callee actually called.
   spec64 md xf f is literally the statement proved for the translated 32-bit routines of group J, at width 64:
   result in i64, the model's outcome list is the singleton [result mod 2^64, flags], status word = st lor flags. *)
From Coq Require Import ZArith Lia Bool List ZifyBool.
From DV Require Import Base Bid Arith OpsArith OpsMisc OpsConv.
From DVI Require Import ImplLib ImplCommon.
Import ListNotations.
Open Scope Z_scope.

Definition spec64 (md : rmode) (xf : bool) (f : Z -> Z -> Z -> Z * Z) : Prop :=
  forall w0 w1 st, in_u64 w0 -> in_u64 w1 -> in_u32 st ->
    let '(r, st') := f w0 w1 st in
    in_i64 r /\ exists fl, m_to_int 64 true md xf (pat w0 w1) = [([r mod 18446744073709551616], fl)] /\ st' = Z.lor st fl.

(* the model always answers with one outcome whose word is below 2^64 *)
Lemma m_to_int64_single md xf x :
  exists v fl, m_to_int 64 true md xf x = [([v], fl)] /\ 0 <= v < 18446744073709551616.
Proof.
  unfold m_to_int. change (2 ^ (64 - 1)) with 9223372036854775808. change (2 ^ 64) with 18446744073709551616.
  destruct (decode x) as [s c q| |].
  2,3: (eexists _, _; split; [reflexivity|lia]).
  destruct (c =? 0); [eexists _, _; split; [reflexivity|lia]|].
  destruct (20 <? q); [eexists _, _; split; [reflexivity|lia]|].
  destruct (if 0 <=? q then (c * 10 ^ q, false) else round_int md s c (- q)) as [n inx].
  destruct ((_ <=? _) && (_ <=? _)).
  - eexists _, _; split; [reflexivity|]. apply Z.mod_pos_bound. reflexivity.
  - eexists _, _; split; [reflexivity|lia].
Qed.

(* a function that meets spec64: read the model's answer back as an i64 *)
Definition wit64 (md : rmode) (xf : bool) (w0 w1 st : Z) : Z * Z :=
  match m_to_int 64 true md xf (pat w0 w1) with
  | [([v], fl)] => ((v + 9223372036854775808) mod 18446744073709551616 - 9223372036854775808, Z.lor st fl)
  | _ => (0, st)
  end.

Lemma wit64_spec md xf : spec64 md xf (wit64 md xf).
Proof.
  intros w0 w1 st _ _ _. unfold wit64.
  destruct (m_to_int64_single md xf (pat w0 w1)) as (v & fl & E & Hv). rewrite E.
  split; [unfold in_i64; lia|]. exists fl. split; [|reflexivity].
  repeat f_equal. lia.
Qed.
