(* Layer I, groups R / RP: bid128_round_integral_{zero, negative, positive, nearest_even, nearest_away} and bid128_nearbyint
   (complete theorems) and bid128_round_integral_exact (PARTIAL theorem) against the reference model (OpsMisc.v: rint_dec md signal_inexact; Judge.v maps ORintFix m to rint_dec m false, ORint to
   rint_dec md true, ONearbyint to rint_dec md false) for ALL inputs. One block per routine (layerI.py compiles each block
   as a file of its own under the header of ImplProofs.v). Shared lemmas and the tactics of the walk: ImplRint.v.
   Axiom-free. *)
From Coq Require Import ZArith Lia Bool List ZifyBool.
From DV Require Import Base Bid BidProofs OpsArith OpsCmp OpsMisc OpsConv.
From DVI Require Import ImplLib ImplGen ImplCommon.
Import ListNotations.
Open Scope Z_scope.
Ltac unfold_helpers := unfold i_d128_Default_default, i_d128_new.
(* HEADER END *)

(* BEGIN bid128_round_integral_zero *)
From DVI Require Import ImplTables ImplRint.
(* bid128_round_integral_zero completely (model: rint_dec RTZ false = ORintFix RTZ of Judge.v): for every 128-bit operand pattern (NaN: quiet result with payload canonicalisation, invalid
   for a signaling NaN; infinities; zeros and the three non-canonical forms: zero with the sign of x and exponent max(q, 0);
   exponent >= 0: the operand is returned; |x| < 1 by the exponent test or by the digit count (f64 bit-length idiom +
   BID_NR_DIGITS); otherwise the quotient C / 10^k, k = -q in 1..33(34), through the 118-bit reciprocal BID_TEN2MK128[k-1]
   (__mul_128x128_to_256, shift by BID_SHIFTRIGHT128[k-1] in the three ranges k <= 3, 4..22, 23..34))
   and every incoming status word, the generated code never fails (ok_ = true: every BID_NR_DIGITS / BID_TEN2MK128 /
   BID_SHIFTRIGHT128 / BID_MASKHIGH128 / BID_MIDPOINT64 / BID_MIDPOINT128 index in range, every `as f64` argument below
   2^53, every variable shift amount in 0..63 -- this routine has no shift by 64, unlike the to-integer family) and returns the
   model's single outcome: result words = the pattern of rint_dec RTZ false, status word = incoming word | the flags of
   that outcome (invalid for a signaling NaN, nothing otherwise: the fixed-mode routines never raise inexact). *)
Theorem V_bid128_round_integral_zero x0 x1 st : in_u64 x0 -> in_u64 x1 -> in_u32 st ->
  rint_spec RTZ false x0 x1 st (i_bid128_round_integral_zero x0 x1 st).
Proof.
  intros H0 H1 Hst. unfold i_bid128_round_integral_zero. unfold_helpers. red_lets.
  pose proof H0 as H0'. pose proof H1 as H1'. unfold in_u64 in H0', H1'.
  word_norm lia. mask_tests. pose proof (g5W_range x1) as R.
  step_if B.
  { (* NaN or infinity *)
    step_if A.
    - step_if EP; word_norm lia; step_if ES; rint_nan_leaf.
    - step_if SG; (apply rint_inf; [assumption|assumption|lia|]; unfold sgZ; rewrite SG; reflexivity). }
  step_if C24.
  { step_if Z0. 2:{ discriminate Z0. } rint_zero_leaf x1 ltac:(left; lia). }
  step_if NC.
  { step_if Z0. 2:{ discriminate Z0. } rint_zero_leaf x1 ltac:(right; left; unfold hiW, T34; lia). }
  step_if Z0.
  { rint_zero_leaf x1 ltac:(right; right; unfold hiW; lia). }
  set (hi := x1 mod 562949953421312) in *.
  assert (Hhi : 0 <= hi < 562949953421312) by (apply Z.mod_pos_bound; reflexivity).
  set (C := hi * 18446744073709551616 + x0).
  assert (HC : 0 < C < 10000000000000000000000000000000000) by (unfold C; lia).
  set (be := (x1 / 562949953421312) mod 16384) in *.
  assert (Hbe : 0 <= be <= 12287) by (unfold be, g5W in *; lia).
  assert (G24 : g5W x1 < 24) by lia.
  assert (Ebe : beW x1 = be) by reflexivity. assert (Ehi : hiW x1 = hi) by reflexivity.
  step_if SM.
  { assert (QS : C / 10 ^ (6176 - be) = 0) by (apply (quot_small C 34); [exact HC|lia]).
    apply (rint_general RTZ false x0 x1 st _ _ _ 0); try assumption; try lia; rewrite ?Ebe, ?Ehi; fold C; try exact HC; try lia.
    - unfold in_u64; lia.
    - unfold rint_n. cbv zeta. lia.
    - unfold sgZ. rewrite lor_hi63 by lia. lia.
    - rewrite andb_false_r. reflexivity. }
  word_norm lia.
  nbits_stage x0 hi C.
  assert (Ee : wrap_i32 (wrap_u64 (be - 6176)) = be - 6176) by (unfold wrap_i32, wrap_u64; lia).
  rewrite !Ee. clear Ee.
  step_if EXP.
  { apply rint_ident; try assumption; rewrite ?Ebe, ?Ehi; fold C; try exact HC; lia. }
  digits_stage x0 hi C.
  pose proof (nd_range C HC) as Hnd. pose proof (nd_bounds C (proj1 HC)) as Bnd.
  set (nd := ndigits C) in *.
  set (k := 6176 - be) in *. assert (Hk : 1 <= k) by lia.
  replace (be - 6176) with (- k) by (unfold k; ring). rewrite Z.opp_involutive.
  wrap_ids lia.
  step_if QE.
  2: { assert (QS : C / 10 ^ k = 0) by (apply (quot_small C nd); [lia|lia]).
    apply (rint_general RTZ false x0 x1 st _ _ _ 0); try assumption; try lia; rewrite ?Ebe, ?Ehi; fold C; fold k; try exact HC; try lia.
    - unfold in_u64; lia.
    - unfold rint_n. cbv zeta. lia.
    - unfold sgZ. rewrite lor_hi63 by lia. lia.
    - rewrite andb_false_r. reflexivity. }
  assert (Hk34 : 1 <= k <= 34) by lia.
  destruct (rint_row k Hk34) as (RK0 & RK1 & RS & RB & RZ & RM & RE1 & RE2). cbv zeta in RS, RB, RZ, RM.
  pose proof (R_mul_128x128_to_256 x0 hi _ _ H0 ltac:(unfold in_u64; lia) RK0 RK1) as MUL.
  destruct (i___mul_128x128_to_256 _ _ _ _) as [[[p0 p1] p2] p3]. destruct MUL as (P0 & P1 & P2 & P3 & MUL).
  change (hi * 18446744073709551616 + x0) with C in MUL. fold (rk k) in MUL.
  destruct (rq_core k C p0 p1 p2 p3 Hk34 ltac:(lia) P0 P1 P2 P3 MUL) as (QQ & QA & _). cbv zeta in QA.
  change (nth (Z.to_nat (k - 1)) T_BID_SHIFTRIGHT128 0) with (rs k).
  pose proof (quot_bound C k HC Hk) as QB. rewrite <- QQ in QB.
  assert (FIN : forall r0 h, in_u64 r0 -> 0 <= h -> h * 18446744073709551616 + r0 = rq_q k p2 p3 ->
    rint_spec RTZ false x0 x1 st (r0, Z.lor h (Z.lor ((x1 / 9223372036854775808) mod 2 * 9223372036854775808) 3476778912330022912), st)).
  { intros r0 h R0 Hh E. assert (h < 562949953421312) by (unfold in_u64 in R0; lia).
    apply (rint_general RTZ false x0 x1 st _ _ _ h); try assumption; try lia; rewrite ?Ebe, ?Ehi; fold C; fold k; try exact HC; try lia.
    - unfold rint_n. cbv zeta. lia.
    - unfold sgZ. rewrite lor_res by lia. reflexivity.
    - rewrite andb_false_r. reflexivity. }
  unfold rq_q in *. cbv beta iota.
  step_if K3.
  { apply FIN; [exact P2|unfold in_u64 in P3; lia|]. replace (k <=? 22) with true by lia.
    replace (rs k) with 0 by (destruct (Z.eqb_spec (rs k) 0); [lia|exfalso; lia]). rewrite Z.div_1_r. reflexivity. }
  step_if K22.
  { replace (k <=? 22) with true in * by lia.
    assert (Hs : 0 < rs k < 64) by (destruct (Z.eqb_spec (rs k) 0); destruct (Z.ltb_spec (rs k) 64); lia).
    destruct (shr128_words p2 p3 (rs k) P2 P3 Hs) as [S1 S2]. cbv zeta in S1, S2. rewrite S1, S2.
    destruct (words_split ((p3 * 18446744073709551616 + p2) / 2 ^ rs k) ltac:(lia)) as (W1 & W2 & W3).
    apply FIN; assumption. }
  replace (k <=? 22) with false in * by lia.
  assert (Hs : 64 <= rs k < 128) by (destruct (Z.ltb_spec (rs k) 64); lia).
  rewrite (shr64_word p3 (rs k) Hs).
  set (q3 := p3 / 2 ^ (rs k - 64)) in *. clearbody q3.
  assert (Q64 : q3 < 18446744073709551616).
  { rewrite QQ. apply Z.div_lt_upper_bound; [apply Z.pow_pos_nonneg; lia|].
    assert (10 ^ 23 <= 10 ^ k) by (apply Z.pow_le_mono_r; lia). change (10 ^ 23) with 100000000000000000000000 in *. clear - H HC. lia. }
  apply (FIN _ 0); [clear - QB Q64; unfold in_u64; lia|apply Z.le_refl|ring].
Qed.

Theorem OK_bid128_round_integral_zero x0 x1 st : in_u64 x0 -> in_u64 x1 -> in_u32 st -> ok_bid128_round_integral_zero x0 x1 st = true.
Proof.
  intros H0 H1 Hst. unfold ok_bid128_round_integral_zero. unfold_helpers. red_lets.
  pose proof H0 as H0'. pose proof H1 as H1'. unfold in_u64 in H0', H1'.
  word_norm lia. mask_tests. pose proof (g5W_range x1) as R.
  step_if B. { step_ifs; reflexivity. }
  step_if C24. { step_if Z0; [reflexivity|discriminate Z0]. }
  step_if NC. { step_if Z0; [reflexivity|discriminate Z0]. }
  step_if Z0. { reflexivity. }
  step_if SM. { reflexivity. }
  set (hi := x1 mod 562949953421312) in *.
  assert (Hhi : 0 <= hi < 562949953421312) by (apply Z.mod_pos_bound; reflexivity).
  set (C := hi * 18446744073709551616 + x0).
  assert (HC : 0 < C < 10000000000000000000000000000000000) by (unfold C; lia).
  set (be := (x1 / 562949953421312) mod 16384) in *.
  assert (Hbe : 0 <= be <= 12287) by (unfold be, g5W in *; lia).
  word_norm lia.
  nbits_stage_ok x0 hi C.
  digits_stage_ok x0 hi C.
  assert (Ee : wrap_i32 (wrap_u64 (be - 6176)) = be - 6176) by (unfold wrap_i32, wrap_u64; lia).
  rewrite !Ee. clear Ee.
  step_if EXP. { reflexivity. }
  pose proof (nd_range C HC) as Hnd. set (nd := ndigits C) in *.
  set (k := 6176 - be) in *. assert (Hk : 1 <= k) by lia.
  replace (be - 6176) with (- k) by (unfold k; ring). rewrite Z.opp_involutive.
  wrap_ids lia.
  step_if QE. 2:{ reflexivity. }
  assert (Hk34 : 1 <= k <= 34) by lia.
  destruct (rint_row k Hk34) as (RK0 & RK1 & RS & RB & RZ & _). cbv zeta in RS, RB, RZ.
  change (nth (Z.to_nat (k - 1)) T_BID_SHIFTRIGHT128 0) with (rs k).
  guard_true lia.
  destruct (i___mul_128x128_to_256 _ _ _ _) as [[[p0 p1] p2] p3]. cbv beta iota.
  step_if K3. { reflexivity. }
  step_if K22.
  { assert (Hs : 0 < rs k < 64) by (destruct (Z.eqb_spec (rs k) 0); destruct (Z.ltb_spec (rs k) 64); lia).
    guard_true lia. wrap_ids lia. guard_true lia. reflexivity. }
  assert (Hs : 64 <= rs k < 128) by (destruct (Z.ltb_spec (rs k) 64); lia).
  wrap_ids lia. guard_true lia. reflexivity.
Qed.

Theorem I_bid128_round_integral_zero x0 x1 st : in_u64 x0 -> in_u64 x1 -> in_u32 st ->
  ok_bid128_round_integral_zero x0 x1 st = true /\
  let '(r0, r1, st') := i_bid128_round_integral_zero x0 x1 st in
  in_u64 r0 /\ in_u64 r1 /\ exists fl, rint_dec RTZ false (pat x0 x1) = [([pat r0 r1], fl)] /\ st' = Z.lor st fl.
Proof. intros H0 H1 Hst. split; [apply OK_bid128_round_integral_zero|apply (V_bid128_round_integral_zero x0 x1 st)]; assumption. Qed.
Print Assumptions I_bid128_round_integral_zero.
(* END bid128_round_integral_zero *)

(* BEGIN bid128_round_integral_negative *)
From DVI Require Import ImplTables ImplRint.
(* bid128_round_integral_negative completely (model: rint_dec RDN false = ORintFix RDN of Judge.v): for every 128-bit operand pattern (NaN: quiet result with payload canonicalisation, invalid
   for a signaling NaN; infinities; zeros and the three non-canonical forms: zero with the sign of x and exponent max(q, 0);
   exponent >= 0: the operand is returned; |x| < 1 by the exponent test or by the digit count (f64 bit-length idiom +
   BID_NR_DIGITS); otherwise the quotient C / 10^k, k = -q in 1..33(34), through the 118-bit reciprocal BID_TEN2MK128[k-1]
   (__mul_128x128_to_256, shift by BID_SHIFTRIGHT128[k-1] in the three ranges k <= 3, 4..22, 23..34), plus one for a negative
   operand when the discarded part of the product is >= the reciprocal, i.e. C mod 10^k <> 0 (test on BID_MASKHIGH128 bits and the low 128 bits))
   and every incoming status word, the generated code never fails (ok_ = true: every BID_NR_DIGITS / BID_TEN2MK128 /
   BID_SHIFTRIGHT128 / BID_MASKHIGH128 / BID_MIDPOINT64 / BID_MIDPOINT128 index in range, every `as f64` argument below
   2^53, every variable shift amount in 0..63 -- this routine has no shift by 64, unlike the to-integer family) and returns the
   model's single outcome: result words = the pattern of rint_dec RDN false, status word = incoming word | the flags of
   that outcome (invalid for a signaling NaN, nothing otherwise: the fixed-mode routines never raise inexact). *)
Theorem V_bid128_round_integral_negative x0 x1 st : in_u64 x0 -> in_u64 x1 -> in_u32 st ->
  rint_spec RDN false x0 x1 st (i_bid128_round_integral_negative x0 x1 st).
Proof.
  intros H0 H1 Hst. unfold i_bid128_round_integral_negative. unfold_helpers. red_lets.
  pose proof H0 as H0'. pose proof H1 as H1'. unfold in_u64 in H0', H1'.
  word_norm lia. mask_tests. pose proof (g5W_range x1) as R.
  step_if B.
  { (* NaN or infinity *)
    step_if A.
    - step_if EP; word_norm lia; step_if ES; rint_nan_leaf.
    - step_if SG; (apply rint_inf; [assumption|assumption|lia|]; unfold sgZ; rewrite SG; reflexivity). }
  step_if C24.
  { step_if Z0. 2:{ discriminate Z0. } rint_zero_leaf x1 ltac:(left; lia). }
  step_if NC.
  { step_if Z0. 2:{ discriminate Z0. } rint_zero_leaf x1 ltac:(right; left; unfold hiW, T34; lia). }
  step_if Z0.
  { rint_zero_leaf x1 ltac:(right; right; unfold hiW; lia). }
  assert (G24 : g5W x1 < 24) by lia.
  set (hi := x1 mod 562949953421312) in *.
  assert (Hhi : 0 <= hi < 562949953421312) by (apply Z.mod_pos_bound; reflexivity).
  set (C := hi * 18446744073709551616 + x0).
  assert (HC : 0 < C < 10000000000000000000000000000000000) by (unfold C; lia).
  set (be := (x1 / 562949953421312) mod 16384) in *.
  assert (Hbe : 0 <= be <= 12287) by (unfold be, g5W in *; lia).
  set (sb := (x1 / 9223372036854775808) mod 2) in *.
  assert (Hsb : 0 <= sb <= 1) by (unfold sb; lia).
  set (k := 6176 - be) in *.
  assert (SMALL : forall r0 r1, be < 6176 -> C < 10 ^ k -> r0 = (if 1 <=? sb then 1 else 0) ->
    r1 = sb * 9223372036854775808 + 3476778912330022912 -> rint_spec RDN false x0 x1 st (r0, r1, st)).
  { intros r0 r1 Hb HS -> ->. apply (rint_leaf RDN false x0 x1 st _ _ _ 0 sb H0 H1 G24 HC Hb eq_refl).
    - unfold in_u64. destruct (1 <=? sb); lia.
    - lia.
    - rewrite (rint_n_small RDN _ C k) by (split; [exact (proj1 HC)|exact HS]). destruct (1 <=? sb); reflexivity.
    - lia.
    - rewrite andb_false_r. reflexivity. }
  step_if SM.
  { assert (HS : C < 10 ^ k) by (apply Z.lt_le_trans with (10 ^ 34); [exact (proj2 HC)|apply Z.pow_le_mono_r; lia]).
    step_if SGN; (apply SMALL; [lia|exact HS|destruct (Z.leb_spec 1 sb); lia|lia]). }
  word_norm lia.
  nbits_stage x0 hi C.
  assert (Ee : wrap_i32 (wrap_u64 (be - 6176)) = be - 6176) by (unfold wrap_i32, wrap_u64; lia).
  rewrite !Ee. clear Ee.
  step_if EXP.
  { apply rint_ident; [assumption|assumption|exact G24|exact HC|change (beW x1) with be; lia]. }
  digits_stage x0 hi C.
  pose proof (nd_range C HC) as Hnd. pose proof (nd_bounds C (proj1 HC)) as Bnd.
  set (nd := ndigits C) in *.
  assert (Hk : 1 <= k) by lia.
  replace (be - 6176) with (- k) by (unfold k; ring). rewrite Z.opp_involutive.
  wrap_ids lia.
  step_if QE.
  2: { assert (HS : C < 10 ^ k) by (apply Z.lt_le_trans with (10 ^ nd); [exact (proj2 Bnd)|apply Z.pow_le_mono_r; lia]).
    step_if SGN; (apply SMALL; [lia|exact HS|destruct (Z.leb_spec 1 sb); lia|lia]). }
  mul_stage x0 hi C k HC Hk H0.
  set (K0 := nth (Z.to_nat (k - 1)) T_BID_TEN2MK128_w0 0) in *. set (K1 := nth (Z.to_nat (k - 1)) T_BID_TEN2MK128_w1 0) in *.
  unfold in_u64 in RK0, RK1, P0, P1, P2, P3.
  assert (EK : rk k = K1 * 18446744073709551616 + K0) by reflexivity. rewrite EK in T0. clear TH TL.
  set (Q := C / 10 ^ k) in *. set (r := C mod 10 ^ k) in *.
  set (N := if (1 <=? sb) && negb (r =? 0) then Q + 1 else Q).
  assert (FIN : forall r0 h, r0 = N mod 18446744073709551616 /\ h = N / 18446744073709551616 ->
    rint_spec RDN false x0 x1 st (r0, Z.lor h (Z.lor (sb * 9223372036854775808) 3476778912330022912), st)).
  { intros r0 h [-> ->]. assert (HN : Q <= N <= Q + 1) by (unfold N; destruct ((1 <=? sb) && negb (r =? 0)); clear; lia).
    rewrite lor_res by (clear - HN QB QQ; lia).
    assert (Hb : be < 6176) by lia.
    apply (rint_leaf RDN false x0 x1 st _ _ _ (N / 18446744073709551616) sb H0 H1 G24 HC Hb eq_refl).
    - unfold in_u64. clear - HN QB QQ. lia.
    - clear - HN QB QQ. lia.
    - transitivity N; [clear; lia|reflexivity].
    - reflexivity.
    - rewrite andb_false_r. reflexivity. }
  assert (Q64 : 23 <= k -> Q < 18446744073709551616).
  { intros K23. apply Z.div_lt_upper_bound; [apply Z.pow_pos_nonneg; lia|].
    assert (10 ^ 23 <= 10 ^ k) by (apply Z.pow_le_mono_r; lia). change (10 ^ 23) with 100000000000000000000000 in *. clear - H HC. lia. }
  clearbody Q r. unfold rq_q, rq_a in *.
  step_if K3.
  { replace (k <=? 22) with true in * by lia. replace (k <=? 3) with true in * by lia.
    replace (rs k) with 0 in * by (destruct (Z.eqb_spec (rs k) 0); [lia|exfalso; lia]). rewrite Z.div_1_r in QQ, QB. rewrite QQ in QB.
    rewrite (ge_test0 p1 p0 K1 K0 r P0 P1 RK0 RK1 T0).
    clear - FIN QQ QB Hsb P2 P3.
    step_ifs; apply FIN; unfold N, wrap_u64; destruct ((1 <=? sb) && negb (r =? 0)) eqn:CN; split_ifs_eq; lia. }
  step_if K22.
  { replace (k <=? 22) with true in * by lia. replace (k <=? 3) with false in * by lia.
    assert (Hs : 0 < rs k < 64) by (destruct (Z.eqb_spec (rs k) 0); destruct (Z.ltb_spec (rs k) 64); lia).
    destruct (shr128_words p2 p3 (rs k) ltac:(unfold in_u64; lia) ltac:(unfold in_u64; lia) Hs) as [S1 S2]. cbv zeta in S1, S2. rewrite S1, S2.
    rewrite (land_mask p2 k Hk34) by lia. rewrite (Z.mod_small (rs k) 64) by lia.
    rewrite QQ in QB |- *. set (m := p2 mod 2 ^ rs k) in *.
    rewrite (ge_test1 m p1 p0 K1 K0 r (proj1 QA) P0 P1 RK0 RK1 T0).
    clear - FIN QQ QB Hsb.
    step_ifs; apply FIN; unfold N, wrap_u64; destruct ((1 <=? sb) && negb (r =? 0)) eqn:CN; split_ifs_eq; lia. }
  replace (k <=? 22) with false in * by lia. replace (k <=? 3) with false in * by lia.
  assert (Hs : 64 <= rs k < 128) by (destruct (Z.ltb_spec (rs k) 64); lia).
  rewrite (shr64_word p3 (rs k) Hs). rewrite (land_mask p3 k Hk34) by lia.
  replace (rs k mod 64) with (rs k - 64) by (clear - Hs; lia).
  specialize (Q64 ltac:(lia)).
  rewrite QQ in QB |- *. set (m := p3 mod 2 ^ (rs k - 64)) in *.
  assert (Hm : 0 <= m) by (apply Z.mod_pos_bound; apply Z.pow_pos_nonneg; lia).
  rewrite (ge_test2 m p2 p1 p0 K1 K0 r Hm P2 P0 P1 RK0 RK1 T0).
  clear - FIN QQ QB Hsb Q64.
  step_ifs; apply FIN; unfold N, wrap_u64; destruct ((1 <=? sb) && negb (r =? 0)) eqn:CN; split_ifs_eq; lia.
Qed.

Theorem OK_bid128_round_integral_negative x0 x1 st : in_u64 x0 -> in_u64 x1 -> in_u32 st -> ok_bid128_round_integral_negative x0 x1 st = true.
Proof.
  intros H0 H1 Hst. unfold ok_bid128_round_integral_negative. unfold_helpers. red_lets.
  pose proof H0 as H0'. pose proof H1 as H1'. unfold in_u64 in H0', H1'.
  word_norm lia. mask_tests. pose proof (g5W_range x1) as R.
  step_if B. { step_ifs; reflexivity. }
  step_if C24. { step_if Z0; [step_ifs; reflexivity|discriminate Z0]. }
  step_if NC. { step_if Z0; [step_ifs; reflexivity|discriminate Z0]. }
  step_if Z0. { step_ifs; reflexivity. }
  step_if SM. { step_ifs; reflexivity. }
  set (hi := x1 mod 562949953421312) in *.
  assert (Hhi : 0 <= hi < 562949953421312) by (apply Z.mod_pos_bound; reflexivity).
  set (C := hi * 18446744073709551616 + x0).
  assert (HC : 0 < C < 10000000000000000000000000000000000) by (unfold C; lia).
  set (be := (x1 / 562949953421312) mod 16384) in *.
  assert (Hbe : 0 <= be <= 12287) by (unfold be, g5W in *; lia).
  word_norm lia.
  nbits_stage_ok x0 hi C.
  digits_stage_ok x0 hi C.
  assert (Ee : wrap_i32 (wrap_u64 (be - 6176)) = be - 6176) by (unfold wrap_i32, wrap_u64; lia).
  rewrite !Ee. clear Ee.
  step_if EXP. { reflexivity. }
  pose proof (nd_range C HC) as Hnd. set (nd := ndigits C) in *.
  set (k := 6176 - be) in *. assert (Hk : 1 <= k) by lia.
  replace (be - 6176) with (- k) by (unfold k; ring). rewrite Z.opp_involutive.
  wrap_ids lia.
  step_if QE. 2:{ step_ifs; reflexivity. }
  assert (Hk34 : 1 <= k <= 34) by lia.
  destruct (rint_row k Hk34) as (RK0 & RK1 & RS & RB & RZ & _). cbv zeta in RS, RB, RZ.
  change (nth (Z.to_nat (k - 1)) T_BID_SHIFTRIGHT128 0) with (rs k).
  assert (F2 : 4 <= k <= 22 -> 0 < rs k < 64) by (intros; destruct (Z.eqb_spec (rs k) 0); destruct (Z.ltb_spec (rs k) 64); lia).
  assert (F3 : 23 <= k -> 64 <= rs k < 128) by (intros; destruct (Z.ltb_spec (rs k) 64); lia).
  clear RB RZ HC Hnd NC Z0 SM C24 B R.
  guard_true lia.
  destruct (i___mul_128x128_to_256 _ _ _ _) as [[[p0 p1] p2] p3]. cbv beta iota.
  ok_walk ltac:(wrap_ids lia; lia).
Qed.

Theorem I_bid128_round_integral_negative x0 x1 st : in_u64 x0 -> in_u64 x1 -> in_u32 st ->
  ok_bid128_round_integral_negative x0 x1 st = true /\
  let '(r0, r1, st') := i_bid128_round_integral_negative x0 x1 st in
  in_u64 r0 /\ in_u64 r1 /\ exists fl, rint_dec RDN false (pat x0 x1) = [([pat r0 r1], fl)] /\ st' = Z.lor st fl.
Proof. intros H0 H1 Hst. split; [apply OK_bid128_round_integral_negative|apply (V_bid128_round_integral_negative x0 x1 st)]; assumption. Qed.
Print Assumptions I_bid128_round_integral_negative.
(* END bid128_round_integral_negative *)

(* BEGIN bid128_round_integral_positive *)
From DVI Require Import ImplTables ImplRint.
(* bid128_round_integral_positive completely (model: rint_dec RUP false = ORintFix RUP of Judge.v): for every 128-bit operand pattern (NaN: quiet result with payload canonicalisation, invalid
   for a signaling NaN; infinities; zeros and the three non-canonical forms: zero with the sign of x and exponent max(q, 0);
   exponent >= 0: the operand is returned; |x| < 1 by the exponent test or by the digit count (f64 bit-length idiom +
   BID_NR_DIGITS); otherwise the quotient C / 10^k, k = -q in 1..33(34), through the 118-bit reciprocal BID_TEN2MK128[k-1]
   (__mul_128x128_to_256, shift by BID_SHIFTRIGHT128[k-1] in the three ranges k <= 3, 4..22, 23..34), plus one for a positive
   operand when the discarded part of the product is >= the reciprocal, i.e. C mod 10^k <> 0 (test on BID_MASKHIGH128 bits and the low 128 bits))
   and every incoming status word, the generated code never fails (ok_ = true: every BID_NR_DIGITS / BID_TEN2MK128 /
   BID_SHIFTRIGHT128 / BID_MASKHIGH128 / BID_MIDPOINT64 / BID_MIDPOINT128 index in range, every `as f64` argument below
   2^53, every variable shift amount in 0..63 -- this routine has no shift by 64, unlike the to-integer family) and returns the
   model's single outcome: result words = the pattern of rint_dec RUP false, status word = incoming word | the flags of
   that outcome (invalid for a signaling NaN, nothing otherwise: the fixed-mode routines never raise inexact). *)
Theorem V_bid128_round_integral_positive x0 x1 st : in_u64 x0 -> in_u64 x1 -> in_u32 st ->
  rint_spec RUP false x0 x1 st (i_bid128_round_integral_positive x0 x1 st).
Proof.
  intros H0 H1 Hst. unfold i_bid128_round_integral_positive. unfold_helpers. red_lets.
  pose proof H0 as H0'. pose proof H1 as H1'. unfold in_u64 in H0', H1'.
  word_norm lia. mask_tests. pose proof (g5W_range x1) as R.
  step_if B.
  { (* NaN or infinity *)
    step_if A.
    - step_if EP; word_norm lia; step_if ES; rint_nan_leaf.
    - step_if SG; (apply rint_inf; [assumption|assumption|lia|]; unfold sgZ; rewrite SG; reflexivity). }
  step_if C24.
  { step_if Z0. 2:{ discriminate Z0. } rint_zero_leaf x1 ltac:(left; lia). }
  step_if NC.
  { step_if Z0. 2:{ discriminate Z0. } rint_zero_leaf x1 ltac:(right; left; unfold hiW, T34; lia). }
  step_if Z0.
  { rint_zero_leaf x1 ltac:(right; right; unfold hiW; lia). }
  assert (G24 : g5W x1 < 24) by lia.
  set (hi := x1 mod 562949953421312) in *.
  assert (Hhi : 0 <= hi < 562949953421312) by (apply Z.mod_pos_bound; reflexivity).
  set (C := hi * 18446744073709551616 + x0).
  assert (HC : 0 < C < 10000000000000000000000000000000000) by (unfold C; lia).
  set (be := (x1 / 562949953421312) mod 16384) in *.
  assert (Hbe : 0 <= be <= 12287) by (unfold be, g5W in *; lia).
  set (sb := (x1 / 9223372036854775808) mod 2) in *.
  assert (Hsb : 0 <= sb <= 1) by (unfold sb; lia).
  set (k := 6176 - be) in *.
  assert (SMALL : forall r0 r1, be < 6176 -> C < 10 ^ k -> r0 = (if 1 <=? sb then 0 else 1) ->
    r1 = sb * 9223372036854775808 + 3476778912330022912 -> rint_spec RUP false x0 x1 st (r0, r1, st)).
  { intros r0 r1 Hb HS -> ->. apply (rint_leaf RUP false x0 x1 st _ _ _ 0 sb H0 H1 G24 HC Hb eq_refl).
    - unfold in_u64. destruct (1 <=? sb); lia.
    - lia.
    - rewrite (rint_n_small RUP _ C k) by (split; [exact (proj1 HC)|exact HS]). destruct (1 <=? sb); reflexivity.
    - lia.
    - rewrite andb_false_r. reflexivity. }
  step_if SM.
  { assert (HS : C < 10 ^ k) by (apply Z.lt_le_trans with (10 ^ 34); [exact (proj2 HC)|apply Z.pow_le_mono_r; lia]).
    step_if SGN; (apply SMALL; [lia|exact HS|destruct (Z.leb_spec 1 sb); lia|lia]). }
  word_norm lia.
  nbits_stage x0 hi C.
  assert (Ee : wrap_i32 (wrap_u64 (be - 6176)) = be - 6176) by (unfold wrap_i32, wrap_u64; lia).
  rewrite !Ee. clear Ee.
  step_if EXP.
  { apply rint_ident; [assumption|assumption|exact G24|exact HC|change (beW x1) with be; lia]. }
  digits_stage x0 hi C.
  pose proof (nd_range C HC) as Hnd. pose proof (nd_bounds C (proj1 HC)) as Bnd.
  set (nd := ndigits C) in *.
  assert (Hk : 1 <= k) by lia.
  replace (be - 6176) with (- k) by (unfold k; ring). rewrite Z.opp_involutive.
  wrap_ids lia.
  step_if QE.
  2: { assert (HS : C < 10 ^ k) by (apply Z.lt_le_trans with (10 ^ nd); [exact (proj2 Bnd)|apply Z.pow_le_mono_r; lia]).
    step_if SGN; (apply SMALL; [lia|exact HS|destruct (Z.leb_spec 1 sb); lia|lia]). }
  mul_stage x0 hi C k HC Hk H0.
  set (K0 := nth (Z.to_nat (k - 1)) T_BID_TEN2MK128_w0 0) in *. set (K1 := nth (Z.to_nat (k - 1)) T_BID_TEN2MK128_w1 0) in *.
  unfold in_u64 in RK0, RK1, P0, P1, P2, P3.
  assert (EK : rk k = K1 * 18446744073709551616 + K0) by reflexivity. rewrite EK in T0. clear TH TL.
  set (Q := C / 10 ^ k) in *. set (r := C mod 10 ^ k) in *.
  set (N := if negb (1 <=? sb) && negb (r =? 0) then Q + 1 else Q).
  assert (FIN : forall r0 h, r0 = N mod 18446744073709551616 /\ h = N / 18446744073709551616 ->
    rint_spec RUP false x0 x1 st (r0, Z.lor h (Z.lor (sb * 9223372036854775808) 3476778912330022912), st)).
  { intros r0 h [-> ->]. assert (HN : Q <= N <= Q + 1) by (unfold N; destruct (negb (1 <=? sb) && negb (r =? 0)); clear; lia).
    rewrite lor_res by (clear - HN QB QQ; lia).
    assert (Hb : be < 6176) by lia.
    apply (rint_leaf RUP false x0 x1 st _ _ _ (N / 18446744073709551616) sb H0 H1 G24 HC Hb eq_refl).
    - unfold in_u64. clear - HN QB QQ. lia.
    - clear - HN QB QQ. lia.
    - transitivity N; [clear; lia|reflexivity].
    - reflexivity.
    - rewrite andb_false_r. reflexivity. }
  assert (Q64 : 23 <= k -> Q < 18446744073709551616).
  { intros K23. apply Z.div_lt_upper_bound; [apply Z.pow_pos_nonneg; lia|].
    assert (10 ^ 23 <= 10 ^ k) by (apply Z.pow_le_mono_r; lia). change (10 ^ 23) with 100000000000000000000000 in *. clear - H HC. lia. }
  clearbody Q r. unfold rq_q, rq_a in *.
  step_if K3.
  { replace (k <=? 22) with true in * by lia. replace (k <=? 3) with true in * by lia.
    replace (rs k) with 0 in * by (destruct (Z.eqb_spec (rs k) 0); [lia|exfalso; lia]). rewrite Z.div_1_r in QQ, QB. rewrite QQ in QB.
    rewrite (ge_test0 p1 p0 K1 K0 r P0 P1 RK0 RK1 T0).
    clear - FIN QQ QB Hsb P2 P3.
    step_ifs; apply FIN; unfold N, wrap_u64; destruct (negb (1 <=? sb) && negb (r =? 0)) eqn:CN; split_ifs_eq; lia. }
  step_if K22.
  { replace (k <=? 22) with true in * by lia. replace (k <=? 3) with false in * by lia.
    assert (Hs : 0 < rs k < 64) by (destruct (Z.eqb_spec (rs k) 0); destruct (Z.ltb_spec (rs k) 64); lia).
    destruct (shr128_words p2 p3 (rs k) ltac:(unfold in_u64; lia) ltac:(unfold in_u64; lia) Hs) as [S1 S2]. cbv zeta in S1, S2. rewrite S1, S2.
    rewrite (land_mask p2 k Hk34) by lia. rewrite (Z.mod_small (rs k) 64) by lia.
    rewrite QQ in QB |- *. set (m := p2 mod 2 ^ rs k) in *.
    rewrite (ge_test1 m p1 p0 K1 K0 r (proj1 QA) P0 P1 RK0 RK1 T0).
    clear - FIN QQ QB Hsb.
    step_ifs; apply FIN; unfold N, wrap_u64; destruct (negb (1 <=? sb) && negb (r =? 0)) eqn:CN; split_ifs_eq; lia. }
  replace (k <=? 22) with false in * by lia. replace (k <=? 3) with false in * by lia.
  assert (Hs : 64 <= rs k < 128) by (destruct (Z.ltb_spec (rs k) 64); lia).
  rewrite (shr64_word p3 (rs k) Hs). rewrite (land_mask p3 k Hk34) by lia.
  replace (rs k mod 64) with (rs k - 64) by (clear - Hs; lia).
  specialize (Q64 ltac:(lia)).
  rewrite QQ in QB |- *. set (m := p3 mod 2 ^ (rs k - 64)) in *.
  assert (Hm : 0 <= m) by (apply Z.mod_pos_bound; apply Z.pow_pos_nonneg; lia).
  rewrite (ge_test2 m p2 p1 p0 K1 K0 r Hm P2 P0 P1 RK0 RK1 T0).
  clear - FIN QQ QB Hsb Q64.
  step_ifs; apply FIN; unfold N, wrap_u64; destruct (negb (1 <=? sb) && negb (r =? 0)) eqn:CN; split_ifs_eq; lia.
Qed.

Theorem OK_bid128_round_integral_positive x0 x1 st : in_u64 x0 -> in_u64 x1 -> in_u32 st -> ok_bid128_round_integral_positive x0 x1 st = true.
Proof.
  intros H0 H1 Hst. unfold ok_bid128_round_integral_positive. unfold_helpers. red_lets.
  pose proof H0 as H0'. pose proof H1 as H1'. unfold in_u64 in H0', H1'.
  word_norm lia. mask_tests. pose proof (g5W_range x1) as R.
  step_if B. { step_ifs; reflexivity. }
  step_if C24. { step_if Z0; [step_ifs; reflexivity|discriminate Z0]. }
  step_if NC. { step_if Z0; [step_ifs; reflexivity|discriminate Z0]. }
  step_if Z0. { step_ifs; reflexivity. }
  step_if SM. { step_ifs; reflexivity. }
  set (hi := x1 mod 562949953421312) in *.
  assert (Hhi : 0 <= hi < 562949953421312) by (apply Z.mod_pos_bound; reflexivity).
  set (C := hi * 18446744073709551616 + x0).
  assert (HC : 0 < C < 10000000000000000000000000000000000) by (unfold C; lia).
  set (be := (x1 / 562949953421312) mod 16384) in *.
  assert (Hbe : 0 <= be <= 12287) by (unfold be, g5W in *; lia).
  word_norm lia.
  nbits_stage_ok x0 hi C.
  digits_stage_ok x0 hi C.
  assert (Ee : wrap_i32 (wrap_u64 (be - 6176)) = be - 6176) by (unfold wrap_i32, wrap_u64; lia).
  rewrite !Ee. clear Ee.
  step_if EXP. { reflexivity. }
  pose proof (nd_range C HC) as Hnd. set (nd := ndigits C) in *.
  set (k := 6176 - be) in *. assert (Hk : 1 <= k) by lia.
  replace (be - 6176) with (- k) by (unfold k; ring). rewrite Z.opp_involutive.
  wrap_ids lia.
  step_if QE. 2:{ step_ifs; reflexivity. }
  assert (Hk34 : 1 <= k <= 34) by lia.
  destruct (rint_row k Hk34) as (RK0 & RK1 & RS & RB & RZ & _). cbv zeta in RS, RB, RZ.
  change (nth (Z.to_nat (k - 1)) T_BID_SHIFTRIGHT128 0) with (rs k).
  assert (F2 : 4 <= k <= 22 -> 0 < rs k < 64) by (intros; destruct (Z.eqb_spec (rs k) 0); destruct (Z.ltb_spec (rs k) 64); lia).
  assert (F3 : 23 <= k -> 64 <= rs k < 128) by (intros; destruct (Z.ltb_spec (rs k) 64); lia).
  clear RB RZ HC Hnd NC Z0 SM C24 B R.
  guard_true lia.
  destruct (i___mul_128x128_to_256 _ _ _ _) as [[[p0 p1] p2] p3]. cbv beta iota.
  ok_walk ltac:(wrap_ids lia; lia).
Qed.

Theorem I_bid128_round_integral_positive x0 x1 st : in_u64 x0 -> in_u64 x1 -> in_u32 st ->
  ok_bid128_round_integral_positive x0 x1 st = true /\
  let '(r0, r1, st') := i_bid128_round_integral_positive x0 x1 st in
  in_u64 r0 /\ in_u64 r1 /\ exists fl, rint_dec RUP false (pat x0 x1) = [([pat r0 r1], fl)] /\ st' = Z.lor st fl.
Proof. intros H0 H1 Hst. split; [apply OK_bid128_round_integral_positive|apply (V_bid128_round_integral_positive x0 x1 st)]; assumption. Qed.
Print Assumptions I_bid128_round_integral_positive.
(* END bid128_round_integral_positive *)

(* BEGIN bid128_round_integral_nearest_even *)
From DVI Require Import ImplTables ImplRint.
(* bid128_round_integral_nearest_even completely (model: rint_dec RNE false = ORintFix RNE of Judge.v): for every 128-bit operand pattern (NaN: quiet result with payload canonicalisation, invalid
   for a signaling NaN; infinities; zeros and the three non-canonical forms: zero with the sign of x and exponent max(q, 0);
   exponent >= 0: the operand is returned; |x| < 1 by the exponent test or by the digit count (f64 bit-length idiom +
   BID_NR_DIGITS); otherwise the quotient C / 10^k, k = -q in 1..33(34), through the 118-bit reciprocal BID_TEN2MK128[k-1]
   (__mul_128x128_to_256, shift by BID_SHIFTRIGHT128[k-1] in the three ranges k <= 3, 4..22, 23..34) applied to
   C + 5 * 10^(k-1) (BID_MIDPOINT64 / BID_MIDPOINT128 with the carry into the high word), minus one when the quotient is odd and the
   division was exact (a tie: discarded part < reciprocal))
   and every incoming status word, the generated code never fails (ok_ = true: every BID_NR_DIGITS / BID_TEN2MK128 /
   BID_SHIFTRIGHT128 / BID_MASKHIGH128 / BID_MIDPOINT64 / BID_MIDPOINT128 index in range, every `as f64` argument below
   2^53, every variable shift amount in 0..63 -- this routine has no shift by 64, unlike the to-integer family) and returns the
   model's single outcome: result words = the pattern of rint_dec RNE false, status word = incoming word | the flags of
   that outcome (invalid for a signaling NaN, nothing otherwise: the fixed-mode routines never raise inexact). *)
Theorem V_bid128_round_integral_nearest_even x0 x1 st : in_u64 x0 -> in_u64 x1 -> in_u32 st ->
  rint_spec RNE false x0 x1 st (i_bid128_round_integral_nearest_even x0 x1 st).
Proof.
  intros H0 H1 Hst. unfold i_bid128_round_integral_nearest_even. unfold_helpers. red_lets.
  pose proof H0 as H0'. pose proof H1 as H1'. unfold in_u64 in H0', H1'.
  word_norm lia. mask_tests. pose proof (g5W_range x1) as R.
  step_if B.
  { (* NaN or infinity *)
    step_if A.
    - step_if EP; word_norm lia; step_if ES; rint_nan_leaf.
    - step_if SG; (apply rint_inf; [assumption|assumption|lia|]; unfold sgZ; rewrite SG; reflexivity). }
  step_if C24.
  { step_if Z0. 2:{ discriminate Z0. } rint_zero_leaf x1 ltac:(left; lia). }
  step_if NC.
  { step_if Z0. 2:{ discriminate Z0. } rint_zero_leaf x1 ltac:(right; left; unfold hiW, T34; lia). }
  step_if Z0.
  { rint_zero_leaf x1 ltac:(right; right; unfold hiW; lia). }
  assert (G24 : g5W x1 < 24) by lia.
  set (hi := x1 mod 562949953421312) in *.
  assert (Hhi : 0 <= hi < 562949953421312) by (apply Z.mod_pos_bound; reflexivity).
  set (C := hi * 18446744073709551616 + x0).
  assert (HC : 0 < C < 10000000000000000000000000000000000) by (unfold C; lia).
  set (be := (x1 / 562949953421312) mod 16384) in *.
  assert (Hbe : 0 <= be <= 12287) by (unfold be, g5W in *; lia).
  set (sb := (x1 / 9223372036854775808) mod 2) in *.
  assert (Hsb : 0 <= sb <= 1) by (unfold sb; lia).
  set (k := 6176 - be) in *.
  assert (SMALL : be < 6176 -> 2 * C < 10 ^ k ->
    rint_spec RNE false x0 x1 st (0, Z.lor (sb * 9223372036854775808) 3476778912330022912, st)).
  { intros Hb HS. rewrite lor_hi63 by lia. apply (rint_leaf RNE false x0 x1 st _ _ _ 0 sb H0 H1 G24 HC Hb eq_refl).
    - unfold in_u64. lia.
    - lia.
    - rewrite (rint_n_small RNE _ C k) by (split; [exact (proj1 HC)|lia]). replace (10 ^ k <? 2 * C) with false by lia. reflexivity.
    - lia.
    - rewrite andb_false_r. reflexivity. }
  step_if SM.
  { apply SMALL; [lia|]. apply Z.lt_le_trans with (10 ^ 35); [change (10 ^ 35) with 100000000000000000000000000000000000; lia|apply Z.pow_le_mono_r; lia]. }
  word_norm lia.
  nbits_stage x0 hi C.
  assert (Ee : wrap_i32 (wrap_u64 (be - 6176)) = be - 6176) by (unfold wrap_i32, wrap_u64; lia).
  rewrite !Ee. clear Ee.
  step_if EXP.
  { apply rint_ident; [assumption|assumption|exact G24|exact HC|change (beW x1) with be; lia]. }
  digits_stage x0 hi C.
  pose proof (nd_range C HC) as Hnd. pose proof (nd_bounds C (proj1 HC)) as Bnd.
  set (nd := ndigits C) in *.
  assert (Hk : 1 <= k) by lia.
  replace (be - 6176) with (- k) by (unfold k; ring). rewrite Z.opp_involutive.
  wrap_ids lia.
  step_if QE.
  2: { apply SMALL; [lia|]. assert (10 ^ nd <= 10 ^ (k - 1)) by (apply Z.pow_le_mono_r; lia).
    replace k with (Z.succ (k - 1)) at 1 by lia. rewrite Z.pow_succ_r by lia. lia. }
  assert (Hk34 : 1 <= k <= 34) by lia.
  destruct (mid_words k Hk34) as (HM & M19 & M20). cbv zeta in HM, M19, M20.
  set (M := 5 * 10 ^ (k - 1)) in *.
  set (m0 := M mod 18446744073709551616). set (m1 := M / 18446744073709551616).
  goal_term ltac:(fun t => let h := spine_head t in assert (EH : h = (wrap_u64 (x0 + m0), hi + m1))).
  { destruct (Z.leb_spec k 19) as [K19|K19].
    - destruct (M19 K19) as [E1 E2]. rewrite E1. unfold m0, m1. clearbody M. f_equal; [f_equal|]; lia.
    - destruct (M20 ltac:(lia)) as [E1 E2]. rewrite (wrap_usize_id (k - 20)) by (unfold in_u64; lia).
      set (w0 := nth (Z.to_nat (k - 20)) T_BID_MIDPOINT128_w0 0) in *. set (w1 := nth (Z.to_nat (k - 20)) T_BID_MIDPOINT128_w1 0) in *.
      unfold m0, m1, wrap_u64, in_u64 in *. clearbody M w0 w1. f_equal; [f_equal|]; lia. }
  rewrite EH. clear EH. cbv beta iota.
  set (c0 := wrap_u64 (x0 + m0)). set (c1 := if c0 <? x0 then wrap_u64 (hi + m1 + 1) else hi + m1).
  set (C' := C + M).
  assert (EC : c1 * 18446744073709551616 + c0 = C' /\ in_u64 c0 /\ in_u64 c1).
  { unfold c1, c0, C', C, m0, m1, wrap_u64, in_u64. clearbody M. destruct (Z.ltb_spec ((x0 + M mod 18446744073709551616) mod 18446744073709551616) x0); lia. }
  destruct EC as (EC & HC0 & HC1).
  assert (HCb : 0 <= C' <= 20000000000000000000000000000000000) by (unfold C'; lia).
  mul_stage_gen c0 c1 C' k EC HC0 HC1 HCb Hk34.
  set (K0 := nth (Z.to_nat (k - 1)) T_BID_TEN2MK128_w0 0) in *. set (K1 := nth (Z.to_nat (k - 1)) T_BID_TEN2MK128_w1 0) in *.
  unfold in_u64 in RK0, RK1, P0, P1, P2, P3.
  assert (EK : rk k = K1 * 18446744073709551616 + K0) by reflexivity. rewrite EK in T0. clear TH TL.
  set (Q := C' / 10 ^ k) in *. set (r := C' mod 10 ^ k) in *.
  set (N := if (r =? 0) && (Q mod 2 =? 1) then Q - 1 else Q).
  assert (EN : rint_n RNE (1 <=? sb) C k = N) by (apply (rne_form (1 <=? sb) C k); lia).
  assert (QB : 0 <= Q < 2000000000000000000000000000000000).
  { unfold Q. split; [apply Z.div_pos; [lia|apply Z.pow_pos_nonneg; lia]|]. apply Z.div_lt_upper_bound; [apply Z.pow_pos_nonneg; lia|].
    assert (10 <= 10 ^ k) by (change 10 with (10 ^ 1) at 1; apply Z.pow_le_mono_r; lia).
    assert (C' < 20000000000000000000000000000000000) by (unfold C'; clear - HC HM; lia).
    set (D := 10 ^ k) in *. clearbody D. clear - H H2. lia. }
  assert (HN : 0 <= N <= Q).
  { pose proof (rint_n_bounds RNE (1 <=? sb) C k ltac:(lia) ltac:(lia)) as NB. rewrite EN in NB.
    assert (HQ0 : 0 <= C / 10 ^ k) by (apply Z.div_pos; [lia|apply Z.pow_pos_nonneg; lia]).
    split; [set (q := C / 10 ^ k) in *; clearbody q; clear - NB HQ0; lia|]. unfold N. destruct ((r =? 0) && (Q mod 2 =? 1)); clear; lia. }
  assert (FIN : forall r0 h, r0 = N mod 18446744073709551616 /\ h = N / 18446744073709551616 ->
    rint_spec RNE false x0 x1 st (r0, Z.lor h (Z.lor (sb * 9223372036854775808) 3476778912330022912), st)).
  { intros r0 h [-> ->].
    rewrite lor_res by (clear - HN QB; lia).
    assert (Hb : be < 6176) by lia.
    apply (rint_leaf RNE false x0 x1 st _ _ _ (N / 18446744073709551616) sb H0 H1 G24 HC Hb eq_refl).
    - unfold in_u64. clear - HN QB. lia.
    - clear - HN QB. lia.
    - transitivity N; [clear; lia|symmetry; exact EN].
    - reflexivity.
    - rewrite andb_false_r. reflexivity. }
  assert (Q64 : 23 <= k -> Q < 18446744073709551616).
  { intros K23. apply Z.div_lt_upper_bound; [apply Z.pow_pos_nonneg; lia|].
    assert (10 ^ 23 <= 10 ^ k) by (apply Z.pow_le_mono_r; lia). change (10 ^ 23) with 100000000000000000000000 in *. clear - H HCb. lia. }
  clear EN. clearbody Q r. unfold rq_q, rq_a in *. rewrite !land_1.
  step_if K3.
  { replace (k <=? 22) with true in * by lia. replace (k <=? 3) with true in * by lia.
    replace (rs k) with 0 in * by (destruct (Z.eqb_spec (rs k) 0); [lia|exfalso; lia]). rewrite Z.div_1_r in QQ.
    rewrite (lt_test0 p1 p0 K1 K0 r P0 P1 RK0 RK1 T0).
    clear - FIN QQ QB HN P2 P3.
    step_ifs; apply FIN; unfold N, wrap_u64 in *; destruct ((r =? 0) && (Q mod 2 =? 1)) eqn:CN; split_ifs_eq; lia. }
  step_if K22.
  { replace (k <=? 22) with true in * by lia. replace (k <=? 3) with false in * by lia.
    assert (Hs : 0 < rs k < 64) by (destruct (Z.eqb_spec (rs k) 0); destruct (Z.ltb_spec (rs k) 64); lia).
    destruct (shr128_words p2 p3 (rs k) ltac:(unfold in_u64; lia) ltac:(unfold in_u64; lia) Hs) as [S1 S2]. cbv zeta in S1, S2. rewrite S1, S2.
    rewrite (land_mask p2 k Hk34) by lia. rewrite (Z.mod_small (rs k) 64) by lia.
    rewrite QQ. set (m := p2 mod 2 ^ rs k) in *.
    rewrite <- !andb_assoc. rewrite (lt_test1 m p1 p0 K1 K0 r (proj1 QA) P0 P1 RK0 RK1 T0).
    clear - FIN QB HN.
    step_ifs; apply FIN; unfold N, wrap_u64 in *; destruct ((r =? 0) && (Q mod 2 =? 1)) eqn:CN; split_ifs_eq; lia. }
  replace (k <=? 22) with false in * by lia. replace (k <=? 3) with false in * by lia.
  assert (Hs : 64 <= rs k < 128) by (destruct (Z.ltb_spec (rs k) 64); lia).
  rewrite (shr64_word p3 (rs k) Hs). rewrite (land_mask p3 k Hk34) by lia.
  replace (rs k mod 64) with (rs k - 64) by (clear - Hs; lia).
  specialize (Q64 ltac:(lia)).
  rewrite QQ. set (m := p3 mod 2 ^ (rs k - 64)) in *.
  assert (Hm : 0 <= m) by (apply Z.mod_pos_bound; apply Z.pow_pos_nonneg; lia).
  rewrite <- !andb_assoc. rewrite (lt_test2 m p2 p1 p0 K1 K0 r Hm P2 P0 P1 RK0 RK1 T0).
  clear - FIN QB HN Q64.
  step_ifs; apply FIN; unfold N, wrap_u64 in *; destruct ((r =? 0) && (Q mod 2 =? 1)) eqn:CN; split_ifs_eq; lia.
Qed.

Theorem OK_bid128_round_integral_nearest_even x0 x1 st : in_u64 x0 -> in_u64 x1 -> in_u32 st -> ok_bid128_round_integral_nearest_even x0 x1 st = true.
Proof.
  intros H0 H1 Hst. unfold ok_bid128_round_integral_nearest_even. unfold_helpers. red_lets.
  pose proof H0 as H0'. pose proof H1 as H1'. unfold in_u64 in H0', H1'.
  word_norm lia. mask_tests. pose proof (g5W_range x1) as R.
  step_if B. { step_ifs; reflexivity. }
  step_if C24. { step_if Z0; [step_ifs; reflexivity|discriminate Z0]. }
  step_if NC. { step_if Z0; [step_ifs; reflexivity|discriminate Z0]. }
  step_if Z0. { step_ifs; reflexivity. }
  step_if SM. { step_ifs; reflexivity. }
  set (hi := x1 mod 562949953421312) in *.
  assert (Hhi : 0 <= hi < 562949953421312) by (apply Z.mod_pos_bound; reflexivity).
  set (C := hi * 18446744073709551616 + x0).
  assert (HC : 0 < C < 10000000000000000000000000000000000) by (unfold C; lia).
  set (be := (x1 / 562949953421312) mod 16384) in *.
  assert (Hbe : 0 <= be <= 12287) by (unfold be, g5W in *; lia).
  word_norm lia.
  nbits_stage_ok x0 hi C.
  digits_stage_ok x0 hi C.
  assert (Ee : wrap_i32 (wrap_u64 (be - 6176)) = be - 6176) by (unfold wrap_i32, wrap_u64; lia).
  rewrite !Ee. clear Ee.
  step_if EXP. { reflexivity. }
  pose proof (nd_range C HC) as Hnd. set (nd := ndigits C) in *.
  set (k := 6176 - be) in *. assert (Hk : 1 <= k) by lia.
  replace (be - 6176) with (- k) by (unfold k; ring). rewrite Z.opp_involutive.
  wrap_ids lia.
  step_if QE. 2:{ step_ifs; reflexivity. }
  assert (Hk34 : 1 <= k <= 34) by lia.
  destruct (rint_row k Hk34) as (RK0 & RK1 & RS & RB & RZ & _). cbv zeta in RS, RB, RZ.
  change (nth (Z.to_nat (k - 1)) T_BID_SHIFTRIGHT128 0) with (rs k).
  assert (F2 : 4 <= k <= 22 -> 0 < rs k < 64) by (intros; destruct (Z.eqb_spec (rs k) 0); destruct (Z.ltb_spec (rs k) 64); lia).
  assert (F3 : 23 <= k -> 64 <= rs k < 128) by (intros; destruct (Z.ltb_spec (rs k) 64); lia).
  clear RB RZ HC Hnd NC Z0 SM C24 B R.
  replace ((0 <=? k - 1) && (k - 1 <? 34)) with true by lia. cbn [andb]. repeat rewrite if_tt.
  ok_spine ltac:(wrap_ids lia; lia).
Qed.

Theorem I_bid128_round_integral_nearest_even x0 x1 st : in_u64 x0 -> in_u64 x1 -> in_u32 st ->
  ok_bid128_round_integral_nearest_even x0 x1 st = true /\
  let '(r0, r1, st') := i_bid128_round_integral_nearest_even x0 x1 st in
  in_u64 r0 /\ in_u64 r1 /\ exists fl, rint_dec RNE false (pat x0 x1) = [([pat r0 r1], fl)] /\ st' = Z.lor st fl.
Proof. intros H0 H1 Hst. split; [apply OK_bid128_round_integral_nearest_even|apply (V_bid128_round_integral_nearest_even x0 x1 st)]; assumption. Qed.
Print Assumptions I_bid128_round_integral_nearest_even.
(* END bid128_round_integral_nearest_even *)

(* BEGIN bid128_round_integral_nearest_away *)
From DVI Require Import ImplTables ImplRint.
(* bid128_round_integral_nearest_away completely (model: rint_dec RNA false = ORintFix RNA of Judge.v): for every 128-bit operand pattern (NaN: quiet result with payload canonicalisation, invalid
   for a signaling NaN; infinities; zeros and the three non-canonical forms: zero with the sign of x and exponent max(q, 0);
   exponent >= 0: the operand is returned; |x| < 1 by the exponent test or by the digit count (f64 bit-length idiom +
   BID_NR_DIGITS); otherwise the quotient C / 10^k, k = -q in 1..33(34), through the 118-bit reciprocal BID_TEN2MK128[k-1]
   (__mul_128x128_to_256, shift by BID_SHIFTRIGHT128[k-1] in the three ranges k <= 3, 4..22, 23..34) applied to
   C + 5 * 10^(k-1) (BID_MIDPOINT64 / BID_MIDPOINT128 with the carry into the high word))
   and every incoming status word, the generated code never fails (ok_ = true: every BID_NR_DIGITS / BID_TEN2MK128 /
   BID_SHIFTRIGHT128 / BID_MASKHIGH128 / BID_MIDPOINT64 / BID_MIDPOINT128 index in range, every `as f64` argument below
   2^53, every variable shift amount in 0..63 -- this routine has no shift by 64, unlike the to-integer family) and returns the
   model's single outcome: result words = the pattern of rint_dec RNA false, status word = incoming word | the flags of
   that outcome (invalid for a signaling NaN, nothing otherwise: the fixed-mode routines never raise inexact). *)
Theorem V_bid128_round_integral_nearest_away x0 x1 st : in_u64 x0 -> in_u64 x1 -> in_u32 st ->
  rint_spec RNA false x0 x1 st (i_bid128_round_integral_nearest_away x0 x1 st).
Proof.
  intros H0 H1 Hst. unfold i_bid128_round_integral_nearest_away. unfold_helpers. red_lets.
  pose proof H0 as H0'. pose proof H1 as H1'. unfold in_u64 in H0', H1'.
  word_norm lia. mask_tests. pose proof (g5W_range x1) as R.
  step_if B.
  { (* NaN or infinity *)
    step_if A.
    - step_if EP; word_norm lia; step_if ES; rint_nan_leaf.
    - step_if SG; (apply rint_inf; [assumption|assumption|lia|]; unfold sgZ; rewrite SG; reflexivity). }
  step_if C24.
  { step_if Z0. 2:{ discriminate Z0. } rint_zero_leaf x1 ltac:(left; lia). }
  step_if NC.
  { step_if Z0. 2:{ discriminate Z0. } rint_zero_leaf x1 ltac:(right; left; unfold hiW, T34; lia). }
  step_if Z0.
  { rint_zero_leaf x1 ltac:(right; right; unfold hiW; lia). }
  assert (G24 : g5W x1 < 24) by lia.
  set (hi := x1 mod 562949953421312) in *.
  assert (Hhi : 0 <= hi < 562949953421312) by (apply Z.mod_pos_bound; reflexivity).
  set (C := hi * 18446744073709551616 + x0).
  assert (HC : 0 < C < 10000000000000000000000000000000000) by (unfold C; lia).
  set (be := (x1 / 562949953421312) mod 16384) in *.
  assert (Hbe : 0 <= be <= 12287) by (unfold be, g5W in *; lia).
  set (sb := (x1 / 9223372036854775808) mod 2) in *.
  assert (Hsb : 0 <= sb <= 1) by (unfold sb; lia).
  set (k := 6176 - be) in *.
  assert (SMALL : be < 6176 -> 2 * C < 10 ^ k ->
    rint_spec RNA false x0 x1 st (0, Z.lor (sb * 9223372036854775808) 3476778912330022912, st)).
  { intros Hb HS. rewrite lor_hi63 by lia. apply (rint_leaf RNA false x0 x1 st _ _ _ 0 sb H0 H1 G24 HC Hb eq_refl).
    - unfold in_u64. lia.
    - lia.
    - rewrite (rint_n_small RNA _ C k) by (split; [exact (proj1 HC)|lia]). replace (10 ^ k <=? 2 * C) with false by lia. reflexivity.
    - lia.
    - rewrite andb_false_r. reflexivity. }
  step_if SM.
  { apply SMALL; [lia|]. apply Z.lt_le_trans with (10 ^ 35); [change (10 ^ 35) with 100000000000000000000000000000000000; lia|apply Z.pow_le_mono_r; lia]. }
  word_norm lia.
  nbits_stage x0 hi C.
  assert (Ee : wrap_i32 (wrap_u64 (be - 6176)) = be - 6176) by (unfold wrap_i32, wrap_u64; lia).
  rewrite !Ee. clear Ee.
  step_if EXP.
  { apply rint_ident; [assumption|assumption|exact G24|exact HC|change (beW x1) with be; lia]. }
  digits_stage x0 hi C.
  pose proof (nd_range C HC) as Hnd. pose proof (nd_bounds C (proj1 HC)) as Bnd.
  set (nd := ndigits C) in *.
  assert (Hk : 1 <= k) by lia.
  replace (be - 6176) with (- k) by (unfold k; ring). rewrite Z.opp_involutive.
  wrap_ids lia.
  step_if QE.
  2: { apply SMALL; [lia|]. assert (10 ^ nd <= 10 ^ (k - 1)) by (apply Z.pow_le_mono_r; lia).
    replace k with (Z.succ (k - 1)) at 1 by lia. rewrite Z.pow_succ_r by lia. lia. }
  assert (Hk34 : 1 <= k <= 34) by lia.
  destruct (mid_words k Hk34) as (HM & M19 & M20). cbv zeta in HM, M19, M20.
  set (M := 5 * 10 ^ (k - 1)) in *.
  set (m0 := M mod 18446744073709551616). set (m1 := M / 18446744073709551616).
  goal_term ltac:(fun t => let h := spine_head t in assert (EH : h = (wrap_u64 (x0 + m0), hi + m1))).
  { destruct (Z.leb_spec k 19) as [K19|K19].
    - destruct (M19 K19) as [E1 E2]. rewrite E1. unfold m0, m1. clearbody M. f_equal; [f_equal|]; lia.
    - destruct (M20 ltac:(lia)) as [E1 E2]. rewrite (wrap_usize_id (k - 20)) by (unfold in_u64; lia).
      set (w0 := nth (Z.to_nat (k - 20)) T_BID_MIDPOINT128_w0 0) in *. set (w1 := nth (Z.to_nat (k - 20)) T_BID_MIDPOINT128_w1 0) in *.
      unfold m0, m1, wrap_u64, in_u64 in *. clearbody M w0 w1. f_equal; [f_equal|]; lia. }
  rewrite EH. clear EH. cbv beta iota.
  set (c0 := wrap_u64 (x0 + m0)). set (c1 := if c0 <? x0 then wrap_u64 (hi + m1 + 1) else hi + m1).
  set (C' := C + M).
  assert (EC : c1 * 18446744073709551616 + c0 = C' /\ in_u64 c0 /\ in_u64 c1).
  { unfold c1, c0, C', C, m0, m1, wrap_u64, in_u64. clearbody M. destruct (Z.ltb_spec ((x0 + M mod 18446744073709551616) mod 18446744073709551616) x0); lia. }
  destruct EC as (EC & HC0 & HC1).
  assert (HCb : 0 <= C' <= 20000000000000000000000000000000000) by (unfold C'; lia).
  mul_stage_gen c0 c1 C' k EC HC0 HC1 HCb Hk34.
  set (K0 := nth (Z.to_nat (k - 1)) T_BID_TEN2MK128_w0 0) in *. set (K1 := nth (Z.to_nat (k - 1)) T_BID_TEN2MK128_w1 0) in *.
  unfold in_u64 in RK0, RK1, P0, P1, P2, P3.
  assert (EK : rk k = K1 * 18446744073709551616 + K0) by reflexivity. rewrite EK in T0. clear TH TL.
  set (Q := C' / 10 ^ k) in *. set (r := C' mod 10 ^ k) in *.
  set (N := Q).
  assert (EN : rint_n RNA (1 <=? sb) C k = N) by (apply (rna_form (1 <=? sb) C k); lia).
  assert (QB : 0 <= Q < 2000000000000000000000000000000000).
  { unfold Q. split; [apply Z.div_pos; [lia|apply Z.pow_pos_nonneg; lia]|]. apply Z.div_lt_upper_bound; [apply Z.pow_pos_nonneg; lia|].
    assert (10 <= 10 ^ k) by (change 10 with (10 ^ 1) at 1; apply Z.pow_le_mono_r; lia).
    assert (C' < 20000000000000000000000000000000000) by (unfold C'; clear - HC HM; lia).
    set (D := 10 ^ k) in *. clearbody D. clear - H H2. lia. }
  assert (FIN : forall r0 h, r0 = N mod 18446744073709551616 /\ h = N / 18446744073709551616 ->
    rint_spec RNA false x0 x1 st (r0, Z.lor h (Z.lor (sb * 9223372036854775808) 3476778912330022912), st)).
  { intros r0 h [-> ->]. unfold N.
    rewrite lor_res by (clear - QB; lia).
    assert (Hb : be < 6176) by lia.
    apply (rint_leaf RNA false x0 x1 st _ _ _ (Q / 18446744073709551616) sb H0 H1 G24 HC Hb eq_refl).
    - unfold in_u64. clear - QB. lia.
    - clear - QB. lia.
    - transitivity N; [unfold N; clear; lia|symmetry; exact EN].
    - reflexivity.
    - rewrite andb_false_r. reflexivity. }
  assert (Q64 : 23 <= k -> Q < 18446744073709551616).
  { intros K23. apply Z.div_lt_upper_bound; [apply Z.pow_pos_nonneg; lia|].
    assert (10 ^ 23 <= 10 ^ k) by (apply Z.pow_le_mono_r; lia). change (10 ^ 23) with 100000000000000000000000 in *. clear - H HCb. lia. }
  clear EN. clearbody Q r. unfold rq_q, rq_a in *.
  step_if K3.
  { replace (k <=? 22) with true in * by lia.
    replace (rs k) with 0 in * by (destruct (Z.eqb_spec (rs k) 0); [lia|exfalso; lia]). rewrite Z.div_1_r in QQ.
    clear - FIN QQ QB P2 P3.
    apply FIN; unfold N; lia. }
  step_if K22.
  { replace (k <=? 22) with true in * by lia.
    assert (Hs : 0 < rs k < 64) by (destruct (Z.eqb_spec (rs k) 0); destruct (Z.ltb_spec (rs k) 64); lia).
    destruct (shr128_words p2 p3 (rs k) ltac:(unfold in_u64; lia) ltac:(unfold in_u64; lia) Hs) as [S1 S2]. cbv zeta in S1, S2. rewrite S1, S2.
    rewrite QQ. apply FIN; unfold N; split; reflexivity. }
  replace (k <=? 22) with false in * by lia.
  assert (Hs : 64 <= rs k < 128) by (destruct (Z.ltb_spec (rs k) 64); lia).
  rewrite (shr64_word p3 (rs k) Hs).
  specialize (Q64 ltac:(lia)).
  rewrite QQ. clear - FIN QB Q64.
  apply FIN; unfold N; lia.
Qed.

Theorem OK_bid128_round_integral_nearest_away x0 x1 st : in_u64 x0 -> in_u64 x1 -> in_u32 st -> ok_bid128_round_integral_nearest_away x0 x1 st = true.
Proof.
  intros H0 H1 Hst. unfold ok_bid128_round_integral_nearest_away. unfold_helpers. red_lets.
  pose proof H0 as H0'. pose proof H1 as H1'. unfold in_u64 in H0', H1'.
  word_norm lia. mask_tests. pose proof (g5W_range x1) as R.
  step_if B. { step_ifs; reflexivity. }
  step_if C24. { step_if Z0; [step_ifs; reflexivity|discriminate Z0]. }
  step_if NC. { step_if Z0; [step_ifs; reflexivity|discriminate Z0]. }
  step_if Z0. { step_ifs; reflexivity. }
  step_if SM. { step_ifs; reflexivity. }
  set (hi := x1 mod 562949953421312) in *.
  assert (Hhi : 0 <= hi < 562949953421312) by (apply Z.mod_pos_bound; reflexivity).
  set (C := hi * 18446744073709551616 + x0).
  assert (HC : 0 < C < 10000000000000000000000000000000000) by (unfold C; lia).
  set (be := (x1 / 562949953421312) mod 16384) in *.
  assert (Hbe : 0 <= be <= 12287) by (unfold be, g5W in *; lia).
  word_norm lia.
  nbits_stage_ok x0 hi C.
  digits_stage_ok x0 hi C.
  assert (Ee : wrap_i32 (wrap_u64 (be - 6176)) = be - 6176) by (unfold wrap_i32, wrap_u64; lia).
  rewrite !Ee. clear Ee.
  step_if EXP. { reflexivity. }
  pose proof (nd_range C HC) as Hnd. set (nd := ndigits C) in *.
  set (k := 6176 - be) in *. assert (Hk : 1 <= k) by lia.
  replace (be - 6176) with (- k) by (unfold k; ring). rewrite Z.opp_involutive.
  wrap_ids lia.
  step_if QE. 2:{ step_ifs; reflexivity. }
  assert (Hk34 : 1 <= k <= 34) by lia.
  destruct (rint_row k Hk34) as (RK0 & RK1 & RS & RB & RZ & _). cbv zeta in RS, RB, RZ.
  change (nth (Z.to_nat (k - 1)) T_BID_SHIFTRIGHT128 0) with (rs k).
  assert (F2 : 4 <= k <= 22 -> 0 < rs k < 64) by (intros; destruct (Z.eqb_spec (rs k) 0); destruct (Z.ltb_spec (rs k) 64); lia).
  assert (F3 : 23 <= k -> 64 <= rs k < 128) by (intros; destruct (Z.ltb_spec (rs k) 64); lia).
  clear RB RZ HC Hnd NC Z0 SM C24 B R.
  replace ((0 <=? k - 1) && (k - 1 <? 34)) with true by lia. cbn [andb]. repeat rewrite if_tt.
  ok_spine ltac:(wrap_ids lia; lia).
Qed.

Theorem I_bid128_round_integral_nearest_away x0 x1 st : in_u64 x0 -> in_u64 x1 -> in_u32 st ->
  ok_bid128_round_integral_nearest_away x0 x1 st = true /\
  let '(r0, r1, st') := i_bid128_round_integral_nearest_away x0 x1 st in
  in_u64 r0 /\ in_u64 r1 /\ exists fl, rint_dec RNA false (pat x0 x1) = [([pat r0 r1], fl)] /\ st' = Z.lor st fl.
Proof. intros H0 H1 Hst. split; [apply OK_bid128_round_integral_nearest_away|apply (V_bid128_round_integral_nearest_away x0 x1 st)]; assumption. Qed.
Print Assumptions I_bid128_round_integral_nearest_away.
(* END bid128_round_integral_nearest_away *)

(* BEGIN bid128_round_integral_exact *)
From DVI Require Import ImplTables ImplRint.
(* bid128_round_integral_exact, PARTIAL (theorem I_bid128_round_integral_exact_partial): for every rounding mode 0..4 (md_of: 0 nearest-even, 1 downward, 2 upward,
   3 toward zero, 4 nearest-away) and every incoming status word, the result and the flags are the model's
   (rint_dec (md_of rnd) true) on the operands x that are NaN (quiet / signaling, payload canonicalised, invalid for sNaN),
   infinite, zero or non-canonical (all three forms), finite with exponent q >= 0 (returned unchanged), or finite non-zero
   with q <= -35 (|x| < 1/10: 0 or +-1 according to the mode and the sign, inexact raised).
   MISSING: finite non-zero operands with -34 <= q <= -1: the digit count, the |x| < 1 cases decided by the midpoint tables, and
   the reciprocal-multiplication branch with its mode-dependent exactness tests (BID_MASKHIGH128, BID_ONEHALF128,
   BID_TEN2MK128); the five fixed-mode routines bid128_round_integral_{nearest_even, negative, positive, zero, nearest_away} contain the same
   arithmetic and are proved completely, the lemmas are in ImplRint.v. No statement about ok_ is made for this routine. *)
Theorem I_bid128_round_integral_exact_partial x0 x1 rnd st : in_u64 x0 -> in_u64 x1 -> 0 <= rnd <= 4 -> in_u32 st ->
  (forall s c q, decode (pat x0 x1) = Fin s c q -> c = 0 \/ 0 <= q \/ q <= -35) ->
  let '(r0, r1, st') := i_bid128_round_integral_exact x0 x1 rnd st in
  in_u64 r0 /\ in_u64 r1 /\ exists fl, rint_dec (md_of rnd) true (pat x0 x1) = [([pat r0 r1], fl)] /\ st' = Z.lor st fl.
Proof.
  intros H0 H1 Hrnd Hst HPRE. change (rint_spec (md_of rnd) true x0 x1 st (i_bid128_round_integral_exact x0 x1 rnd st)).
  assert (CASES : rnd = 0 \/ rnd = 1 \/ rnd = 2 \/ rnd = 3 \/ rnd = 4) by lia.
  unfold i_bid128_round_integral_exact. unfold_helpers.
  destruct CASES as [-> | [-> | [-> | [-> | ->]]]]; cbn [md_of Z.eqb Pos.eqb orb].
  - red_lets.
    pose proof H0 as H0'; pose proof H1 as H1'; unfold in_u64 in H0', H1'.
    word_norm lia; mask_tests; pose proof (g5W_range x1) as R.
    step_if B.
    { step_if A.
      - step_if EP; word_norm lia; step_if ES; rint_nan_leaf.
      - step_if SG; (apply rint_inf; [assumption|assumption|lia|]; unfold sgZ; rewrite SG; reflexivity). }
    step_if C24. { step_if Z0; [rint_zero_leaf x1 ltac:(left; lia)|exfalso; lia]. }
    step_if NC. { step_if Z0; [rint_zero_leaf x1 ltac:(right; left; unfold hiW, T34; lia)|exfalso; lia]. }
    step_if Z0. { rint_zero_leaf x1 ltac:(right; right; unfold hiW; lia). }
    assert (G24 : g5W x1 < 24) by lia.
    set (hi := x1 mod 562949953421312) in *.
    assert (Hhi : 0 <= hi < 562949953421312) by (apply Z.mod_pos_bound; reflexivity).
    set (C := hi * 18446744073709551616 + x0).
    assert (HC : 0 < C < 10000000000000000000000000000000000) by (unfold C; lia).
    set (be := (x1 / 562949953421312) mod 16384) in *.
    assert (Hbe : 0 <= be <= 12287) by (unfold be, g5W in *; lia).
    set (sb := (x1 / 9223372036854775808) mod 2) in *.
    assert (Hsb : 0 <= sb <= 1) by (unfold sb; lia).
    set (k := 6176 - be) in *.
    assert (PRE : 6176 <= be \/ be <= 6141).
    { destruct (HPRE _ _ _ (decode_can x0 x1 H0 H1 G24 HC)) as [X|[X|X]]; change (beW x1) with be in X; change (hiW x1 * 18446744073709551616 + x0) with C in X; lia. }
    assert (SMALL : forall r0 r1, be <= 6141 -> r0 = rint_n RNE (1 <=? sb) C k ->
      r1 = sb * 9223372036854775808 + 3476778912330022912 -> rint_spec RNE true x0 x1 st (r0, r1, Z.lor st 32)).
    { intros r0 r1 Hb -> ->.
      assert (HS : 2 * C < 10 ^ k).
      { apply Z.lt_le_trans with (10 ^ 35); [change (10 ^ 35) with 100000000000000000000000000000000000; lia|apply Z.pow_le_mono_r; lia]. }
      assert (Hb' : be < 6176) by lia.
      assert (HCk : 0 < C < 10 ^ k) by lia.
      apply (rint_leaf RNE true x0 x1 st _ _ _ 0 sb H0 H1 G24 HC Hb' eq_refl).
      - rewrite (rint_n_small RNE _ C k HCk). unfold in_u64. repeat match goal with |- context [if ?c then _ else _] => destruct c end; lia.
      - lia.
      - reflexivity.
      - lia.
      - change (Z.lor st 32 = (if negb (C mod 10 ^ k =? 0) && true then Z.lor st 32 else st)).
        rewrite (Z.mod_small C (10 ^ k)) by lia. replace (C =? 0) with false by lia. reflexivity. }
    step_if SM.
    { assert (HS : 2 * C < 10 ^ k).
      { apply Z.lt_le_trans with (10 ^ 35); [change (10 ^ 35) with 100000000000000000000000000000000000; lia|apply Z.pow_le_mono_r; lia]. }
      assert (HCk : 0 < C < 10 ^ k) by lia.
      apply SMALL; [lia|rewrite (rint_n_small RNE _ C k HCk); repeat match goal with |- context [if ?c then _ else _] => destruct c eqn:? end; lia|rewrite lor_hi63 by lia; reflexivity]. }
    word_norm lia.
    nbits_stage x0 hi C.
    assert (Ee : wrap_i32 (wrap_u64 (be - 6176)) = be - 6176) by (unfold wrap_i32, wrap_u64; lia).
    rewrite !Ee. clear Ee.
    step_if EXP; [|exfalso; lia].
    apply rint_ident; [assumption|assumption|exact G24|exact HC|change (beW x1) with be; lia].
  - red_lets.
    pose proof H0 as H0'; pose proof H1 as H1'; unfold in_u64 in H0', H1'.
    word_norm lia; mask_tests; pose proof (g5W_range x1) as R.
    step_if B.
    { step_if A.
      - step_if EP; word_norm lia; step_if ES; rint_nan_leaf.
      - step_if SG; (apply rint_inf; [assumption|assumption|lia|]; unfold sgZ; rewrite SG; reflexivity). }
    step_if C24. { step_if Z0; [rint_zero_leaf x1 ltac:(left; lia)|exfalso; lia]. }
    step_if NC. { step_if Z0; [rint_zero_leaf x1 ltac:(right; left; unfold hiW, T34; lia)|exfalso; lia]. }
    step_if Z0. { rint_zero_leaf x1 ltac:(right; right; unfold hiW; lia). }
    assert (G24 : g5W x1 < 24) by lia.
    set (hi := x1 mod 562949953421312) in *.
    assert (Hhi : 0 <= hi < 562949953421312) by (apply Z.mod_pos_bound; reflexivity).
    set (C := hi * 18446744073709551616 + x0).
    assert (HC : 0 < C < 10000000000000000000000000000000000) by (unfold C; lia).
    set (be := (x1 / 562949953421312) mod 16384) in *.
    assert (Hbe : 0 <= be <= 12287) by (unfold be, g5W in *; lia).
    set (sb := (x1 / 9223372036854775808) mod 2) in *.
    assert (Hsb : 0 <= sb <= 1) by (unfold sb; lia).
    set (k := 6176 - be) in *.
    assert (PRE : 6176 <= be \/ be <= 6141).
    { destruct (HPRE _ _ _ (decode_can x0 x1 H0 H1 G24 HC)) as [X|[X|X]]; change (beW x1) with be in X; change (hiW x1 * 18446744073709551616 + x0) with C in X; lia. }
    assert (SMALL : forall r0 r1, be <= 6141 -> r0 = rint_n RDN (1 <=? sb) C k ->
      r1 = sb * 9223372036854775808 + 3476778912330022912 -> rint_spec RDN true x0 x1 st (r0, r1, Z.lor st 32)).
    { intros r0 r1 Hb -> ->.
      assert (HS : 2 * C < 10 ^ k).
      { apply Z.lt_le_trans with (10 ^ 35); [change (10 ^ 35) with 100000000000000000000000000000000000; lia|apply Z.pow_le_mono_r; lia]. }
      assert (Hb' : be < 6176) by lia.
      assert (HCk : 0 < C < 10 ^ k) by lia.
      apply (rint_leaf RDN true x0 x1 st _ _ _ 0 sb H0 H1 G24 HC Hb' eq_refl).
      - rewrite (rint_n_small RDN _ C k HCk). unfold in_u64. repeat match goal with |- context [if ?c then _ else _] => destruct c end; lia.
      - lia.
      - reflexivity.
      - lia.
      - change (Z.lor st 32 = (if negb (C mod 10 ^ k =? 0) && true then Z.lor st 32 else st)).
        rewrite (Z.mod_small C (10 ^ k)) by lia. replace (C =? 0) with false by lia. reflexivity. }
    step_if SM.
    { assert (HS : 2 * C < 10 ^ k).
      { apply Z.lt_le_trans with (10 ^ 35); [change (10 ^ 35) with 100000000000000000000000000000000000; lia|apply Z.pow_le_mono_r; lia]. }
      assert (HCk : 0 < C < 10 ^ k) by lia.
      step_if SGN; (apply SMALL; [lia|rewrite (rint_n_small RDN _ C k HCk); destruct (Z.leb_spec 1 sb); lia|lia]). }
    word_norm lia.
    nbits_stage x0 hi C.
    assert (Ee : wrap_i32 (wrap_u64 (be - 6176)) = be - 6176) by (unfold wrap_i32, wrap_u64; lia).
    rewrite !Ee. clear Ee.
    step_if EXP; [|exfalso; lia].
    apply rint_ident; [assumption|assumption|exact G24|exact HC|change (beW x1) with be; lia].
  - red_lets.
    pose proof H0 as H0'; pose proof H1 as H1'; unfold in_u64 in H0', H1'.
    word_norm lia; mask_tests; pose proof (g5W_range x1) as R.
    step_if B.
    { step_if A.
      - step_if EP; word_norm lia; step_if ES; rint_nan_leaf.
      - step_if SG; (apply rint_inf; [assumption|assumption|lia|]; unfold sgZ; rewrite SG; reflexivity). }
    step_if C24. { step_if Z0; [rint_zero_leaf x1 ltac:(left; lia)|exfalso; lia]. }
    step_if NC. { step_if Z0; [rint_zero_leaf x1 ltac:(right; left; unfold hiW, T34; lia)|exfalso; lia]. }
    step_if Z0. { rint_zero_leaf x1 ltac:(right; right; unfold hiW; lia). }
    assert (G24 : g5W x1 < 24) by lia.
    set (hi := x1 mod 562949953421312) in *.
    assert (Hhi : 0 <= hi < 562949953421312) by (apply Z.mod_pos_bound; reflexivity).
    set (C := hi * 18446744073709551616 + x0).
    assert (HC : 0 < C < 10000000000000000000000000000000000) by (unfold C; lia).
    set (be := (x1 / 562949953421312) mod 16384) in *.
    assert (Hbe : 0 <= be <= 12287) by (unfold be, g5W in *; lia).
    set (sb := (x1 / 9223372036854775808) mod 2) in *.
    assert (Hsb : 0 <= sb <= 1) by (unfold sb; lia).
    set (k := 6176 - be) in *.
    assert (PRE : 6176 <= be \/ be <= 6141).
    { destruct (HPRE _ _ _ (decode_can x0 x1 H0 H1 G24 HC)) as [X|[X|X]]; change (beW x1) with be in X; change (hiW x1 * 18446744073709551616 + x0) with C in X; lia. }
    assert (SMALL : forall r0 r1, be <= 6141 -> r0 = rint_n RUP (1 <=? sb) C k ->
      r1 = sb * 9223372036854775808 + 3476778912330022912 -> rint_spec RUP true x0 x1 st (r0, r1, Z.lor st 32)).
    { intros r0 r1 Hb -> ->.
      assert (HS : 2 * C < 10 ^ k).
      { apply Z.lt_le_trans with (10 ^ 35); [change (10 ^ 35) with 100000000000000000000000000000000000; lia|apply Z.pow_le_mono_r; lia]. }
      assert (Hb' : be < 6176) by lia.
      assert (HCk : 0 < C < 10 ^ k) by lia.
      apply (rint_leaf RUP true x0 x1 st _ _ _ 0 sb H0 H1 G24 HC Hb' eq_refl).
      - rewrite (rint_n_small RUP _ C k HCk). unfold in_u64. repeat match goal with |- context [if ?c then _ else _] => destruct c end; lia.
      - lia.
      - reflexivity.
      - lia.
      - change (Z.lor st 32 = (if negb (C mod 10 ^ k =? 0) && true then Z.lor st 32 else st)).
        rewrite (Z.mod_small C (10 ^ k)) by lia. replace (C =? 0) with false by lia. reflexivity. }
    step_if SM.
    { assert (HS : 2 * C < 10 ^ k).
      { apply Z.lt_le_trans with (10 ^ 35); [change (10 ^ 35) with 100000000000000000000000000000000000; lia|apply Z.pow_le_mono_r; lia]. }
      assert (HCk : 0 < C < 10 ^ k) by lia.
      step_if SGN; (apply SMALL; [lia|rewrite (rint_n_small RUP _ C k HCk); destruct (Z.leb_spec 1 sb); lia|lia]). }
    word_norm lia.
    nbits_stage x0 hi C.
    assert (Ee : wrap_i32 (wrap_u64 (be - 6176)) = be - 6176) by (unfold wrap_i32, wrap_u64; lia).
    rewrite !Ee. clear Ee.
    step_if EXP; [|exfalso; lia].
    apply rint_ident; [assumption|assumption|exact G24|exact HC|change (beW x1) with be; lia].
  - red_lets.
    pose proof H0 as H0'; pose proof H1 as H1'; unfold in_u64 in H0', H1'.
    word_norm lia; mask_tests; pose proof (g5W_range x1) as R.
    step_if B.
    { step_if A.
      - step_if EP; word_norm lia; step_if ES; rint_nan_leaf.
      - step_if SG; (apply rint_inf; [assumption|assumption|lia|]; unfold sgZ; rewrite SG; reflexivity). }
    step_if C24. { step_if Z0; [rint_zero_leaf x1 ltac:(left; lia)|exfalso; lia]. }
    step_if NC. { step_if Z0; [rint_zero_leaf x1 ltac:(right; left; unfold hiW, T34; lia)|exfalso; lia]. }
    step_if Z0. { rint_zero_leaf x1 ltac:(right; right; unfold hiW; lia). }
    assert (G24 : g5W x1 < 24) by lia.
    set (hi := x1 mod 562949953421312) in *.
    assert (Hhi : 0 <= hi < 562949953421312) by (apply Z.mod_pos_bound; reflexivity).
    set (C := hi * 18446744073709551616 + x0).
    assert (HC : 0 < C < 10000000000000000000000000000000000) by (unfold C; lia).
    set (be := (x1 / 562949953421312) mod 16384) in *.
    assert (Hbe : 0 <= be <= 12287) by (unfold be, g5W in *; lia).
    set (sb := (x1 / 9223372036854775808) mod 2) in *.
    assert (Hsb : 0 <= sb <= 1) by (unfold sb; lia).
    set (k := 6176 - be) in *.
    assert (PRE : 6176 <= be \/ be <= 6141).
    { destruct (HPRE _ _ _ (decode_can x0 x1 H0 H1 G24 HC)) as [X|[X|X]]; change (beW x1) with be in X; change (hiW x1 * 18446744073709551616 + x0) with C in X; lia. }
    assert (SMALL : forall r0 r1, be <= 6141 -> r0 = rint_n RTZ (1 <=? sb) C k ->
      r1 = sb * 9223372036854775808 + 3476778912330022912 -> rint_spec RTZ true x0 x1 st (r0, r1, Z.lor st 32)).
    { intros r0 r1 Hb -> ->.
      assert (HS : 2 * C < 10 ^ k).
      { apply Z.lt_le_trans with (10 ^ 35); [change (10 ^ 35) with 100000000000000000000000000000000000; lia|apply Z.pow_le_mono_r; lia]. }
      assert (Hb' : be < 6176) by lia.
      assert (HCk : 0 < C < 10 ^ k) by lia.
      apply (rint_leaf RTZ true x0 x1 st _ _ _ 0 sb H0 H1 G24 HC Hb' eq_refl).
      - rewrite (rint_n_small RTZ _ C k HCk). unfold in_u64. repeat match goal with |- context [if ?c then _ else _] => destruct c end; lia.
      - lia.
      - reflexivity.
      - lia.
      - change (Z.lor st 32 = (if negb (C mod 10 ^ k =? 0) && true then Z.lor st 32 else st)).
        rewrite (Z.mod_small C (10 ^ k)) by lia. replace (C =? 0) with false by lia. reflexivity. }
    step_if SM.
    { assert (HS : 2 * C < 10 ^ k).
      { apply Z.lt_le_trans with (10 ^ 35); [change (10 ^ 35) with 100000000000000000000000000000000000; lia|apply Z.pow_le_mono_r; lia]. }
      assert (HCk : 0 < C < 10 ^ k) by lia.
      apply SMALL; [lia|rewrite (rint_n_small RTZ _ C k HCk); repeat match goal with |- context [if ?c then _ else _] => destruct c eqn:? end; lia|rewrite lor_hi63 by lia; reflexivity]. }
    word_norm lia.
    nbits_stage x0 hi C.
    assert (Ee : wrap_i32 (wrap_u64 (be - 6176)) = be - 6176) by (unfold wrap_i32, wrap_u64; lia).
    rewrite !Ee. clear Ee.
    step_if EXP; [|exfalso; lia].
    apply rint_ident; [assumption|assumption|exact G24|exact HC|change (beW x1) with be; lia].
  - red_lets.
    pose proof H0 as H0'; pose proof H1 as H1'; unfold in_u64 in H0', H1'.
    word_norm lia; mask_tests; pose proof (g5W_range x1) as R.
    step_if B.
    { step_if A.
      - step_if EP; word_norm lia; step_if ES; rint_nan_leaf.
      - step_if SG; (apply rint_inf; [assumption|assumption|lia|]; unfold sgZ; rewrite SG; reflexivity). }
    step_if C24. { step_if Z0; [rint_zero_leaf x1 ltac:(left; lia)|exfalso; lia]. }
    step_if NC. { step_if Z0; [rint_zero_leaf x1 ltac:(right; left; unfold hiW, T34; lia)|exfalso; lia]. }
    step_if Z0. { rint_zero_leaf x1 ltac:(right; right; unfold hiW; lia). }
    assert (G24 : g5W x1 < 24) by lia.
    set (hi := x1 mod 562949953421312) in *.
    assert (Hhi : 0 <= hi < 562949953421312) by (apply Z.mod_pos_bound; reflexivity).
    set (C := hi * 18446744073709551616 + x0).
    assert (HC : 0 < C < 10000000000000000000000000000000000) by (unfold C; lia).
    set (be := (x1 / 562949953421312) mod 16384) in *.
    assert (Hbe : 0 <= be <= 12287) by (unfold be, g5W in *; lia).
    set (sb := (x1 / 9223372036854775808) mod 2) in *.
    assert (Hsb : 0 <= sb <= 1) by (unfold sb; lia).
    set (k := 6176 - be) in *.
    assert (PRE : 6176 <= be \/ be <= 6141).
    { destruct (HPRE _ _ _ (decode_can x0 x1 H0 H1 G24 HC)) as [X|[X|X]]; change (beW x1) with be in X; change (hiW x1 * 18446744073709551616 + x0) with C in X; lia. }
    assert (SMALL : forall r0 r1, be <= 6141 -> r0 = rint_n RNA (1 <=? sb) C k ->
      r1 = sb * 9223372036854775808 + 3476778912330022912 -> rint_spec RNA true x0 x1 st (r0, r1, Z.lor st 32)).
    { intros r0 r1 Hb -> ->.
      assert (HS : 2 * C < 10 ^ k).
      { apply Z.lt_le_trans with (10 ^ 35); [change (10 ^ 35) with 100000000000000000000000000000000000; lia|apply Z.pow_le_mono_r; lia]. }
      assert (Hb' : be < 6176) by lia.
      assert (HCk : 0 < C < 10 ^ k) by lia.
      apply (rint_leaf RNA true x0 x1 st _ _ _ 0 sb H0 H1 G24 HC Hb' eq_refl).
      - rewrite (rint_n_small RNA _ C k HCk). unfold in_u64. repeat match goal with |- context [if ?c then _ else _] => destruct c end; lia.
      - lia.
      - reflexivity.
      - lia.
      - change (Z.lor st 32 = (if negb (C mod 10 ^ k =? 0) && true then Z.lor st 32 else st)).
        rewrite (Z.mod_small C (10 ^ k)) by lia. replace (C =? 0) with false by lia. reflexivity. }
    step_if SM.
    { assert (HS : 2 * C < 10 ^ k).
      { apply Z.lt_le_trans with (10 ^ 35); [change (10 ^ 35) with 100000000000000000000000000000000000; lia|apply Z.pow_le_mono_r; lia]. }
      assert (HCk : 0 < C < 10 ^ k) by lia.
      apply SMALL; [lia|rewrite (rint_n_small RNA _ C k HCk); repeat match goal with |- context [if ?c then _ else _] => destruct c eqn:? end; lia|rewrite lor_hi63 by lia; reflexivity]. }
    word_norm lia.
    nbits_stage x0 hi C.
    assert (Ee : wrap_i32 (wrap_u64 (be - 6176)) = be - 6176) by (unfold wrap_i32, wrap_u64; lia).
    rewrite !Ee. clear Ee.
    step_if EXP; [|exfalso; lia].
    apply rint_ident; [assumption|assumption|exact G24|exact HC|change (beW x1) with be; lia].
Qed.
Print Assumptions I_bid128_round_integral_exact_partial.
(* END bid128_round_integral_exact *)

(* BEGIN bid128_nearbyint *)
From DVI Require Import ImplTables ImplRint.
(* bid128_nearbyint completely (model: rint_dec (md_of rnd) false = ONearbyint of Judge.v; md_of: 0 nearest-even, 1 downward,
   2 upward, 3 toward zero, 4 nearest-away): for every 128-bit operand pattern, every rounding mode 0..4 and every incoming
   status word, the generated code never fails (ok_ = true: table indices in range, `as f64` arguments below 2^53, variable
   shift amounts in 0..63) and returns the model's single outcome: result words = the pattern of rint_dec, status word =
   incoming word | invalid for a signaling NaN, nothing otherwise (nearbyint never raises inexact).
   The routine dispatches twice on the mode (early exit for exponents <= -35 / -34, then the rounding proper); for a literal
   mode its code coincides, up to names and dead tuple components, with the fixed-mode routine of that mode, and the lemmas
   V_bid128_nearbyint_<mode> / OK_bid128_nearbyint_<mode> are the scripts of bid128_round_integral_{nearest_even, negative,
   positive, zero, nearest_away} applied to it (no generated name is mentioned). NOTE: about 8 minutes of CPU (five value
   proofs of 60-100 s and five ok_ proofs of 15-25 s); the variant with the PARTIAL theorem (2 min) is kept in
   alt_block_bid128_nearbyint_partial.v. *)
Lemma V_bid128_nearbyint_0 x0 x1 st : in_u64 x0 -> in_u64 x1 -> in_u32 st ->
  rint_spec RNE false x0 x1 st (i_bid128_nearbyint x0 x1 0 st).
Proof.
  intros H0 H1 Hst. unfold i_bid128_nearbyint. unfold_helpers. cbn [Z.eqb Pos.eqb orb]. red_lets.
  pose proof H0 as H0'. pose proof H1 as H1'. unfold in_u64 in H0', H1'.
  word_norm lia. mask_tests. pose proof (g5W_range x1) as R.
  step_if B.
  { (* NaN or infinity *)
    step_if A.
    - step_if EP; word_norm lia; step_if ES; rint_nan_leaf.
    - step_if SG; (apply rint_inf; [assumption|assumption|lia|]; unfold sgZ; rewrite SG; reflexivity). }
  step_if C24.
  { step_if Z0. 2:{ discriminate Z0. } rint_zero_leaf x1 ltac:(left; lia). }
  step_if NC.
  { step_if Z0. 2:{ discriminate Z0. } rint_zero_leaf x1 ltac:(right; left; unfold hiW, T34; lia). }
  step_if Z0.
  { rint_zero_leaf x1 ltac:(right; right; unfold hiW; lia). }
  assert (G24 : g5W x1 < 24) by lia.
  set (hi := x1 mod 562949953421312) in *.
  assert (Hhi : 0 <= hi < 562949953421312) by (apply Z.mod_pos_bound; reflexivity).
  set (C := hi * 18446744073709551616 + x0).
  assert (HC : 0 < C < 10000000000000000000000000000000000) by (unfold C; lia).
  set (be := (x1 / 562949953421312) mod 16384) in *.
  assert (Hbe : 0 <= be <= 12287) by (unfold be, g5W in *; lia).
  set (sb := (x1 / 9223372036854775808) mod 2) in *.
  assert (Hsb : 0 <= sb <= 1) by (unfold sb; lia).
  set (k := 6176 - be) in *.
  assert (SMALL : be < 6176 -> 2 * C < 10 ^ k ->
    rint_spec RNE false x0 x1 st (0, Z.lor (sb * 9223372036854775808) 3476778912330022912, st)).
  { intros Hb HS. rewrite lor_hi63 by lia. apply (rint_leaf RNE false x0 x1 st _ _ _ 0 sb H0 H1 G24 HC Hb eq_refl).
    - unfold in_u64. lia.
    - lia.
    - rewrite (rint_n_small RNE _ C k) by (split; [exact (proj1 HC)|lia]). replace (10 ^ k <? 2 * C) with false by lia. reflexivity.
    - lia.
    - rewrite andb_false_r. reflexivity. }
  step_if SM.
  { apply SMALL; [lia|]. apply Z.lt_le_trans with (10 ^ 35); [change (10 ^ 35) with 100000000000000000000000000000000000; lia|apply Z.pow_le_mono_r; lia]. }
  word_norm lia.
  nbits_stage x0 hi C.
  assert (Ee : wrap_i32 (wrap_u64 (be - 6176)) = be - 6176) by (unfold wrap_i32, wrap_u64; lia).
  rewrite !Ee. clear Ee.
  step_if EXP.
  { apply rint_ident; [assumption|assumption|exact G24|exact HC|change (beW x1) with be; lia]. }
  digits_stage x0 hi C.
  pose proof (nd_range C HC) as Hnd. pose proof (nd_bounds C (proj1 HC)) as Bnd.
  set (nd := ndigits C) in *.
  assert (Hk : 1 <= k) by lia.
  replace (be - 6176) with (- k) by (unfold k; ring). rewrite Z.opp_involutive.
  wrap_ids lia.
  step_if QE.
  2: { apply SMALL; [lia|]. assert (10 ^ nd <= 10 ^ (k - 1)) by (apply Z.pow_le_mono_r; lia).
    replace k with (Z.succ (k - 1)) at 1 by lia. rewrite Z.pow_succ_r by lia. lia. }
  assert (Hk34 : 1 <= k <= 34) by lia.
  destruct (mid_words k Hk34) as (HM & M19 & M20). cbv zeta in HM, M19, M20.
  set (M := 5 * 10 ^ (k - 1)) in *.
  set (m0 := M mod 18446744073709551616). set (m1 := M / 18446744073709551616).
  goal_term ltac:(fun t => let h := spine_head t in assert (EH : h = (wrap_u64 (x0 + m0), hi + m1))).
  { destruct (Z.leb_spec k 19) as [K19|K19].
    - destruct (M19 K19) as [E1 E2]. rewrite E1. unfold m0, m1. clearbody M. f_equal; [f_equal|]; lia.
    - destruct (M20 ltac:(lia)) as [E1 E2]. rewrite (wrap_usize_id (k - 20)) by (unfold in_u64; lia).
      set (w0 := nth (Z.to_nat (k - 20)) T_BID_MIDPOINT128_w0 0) in *. set (w1 := nth (Z.to_nat (k - 20)) T_BID_MIDPOINT128_w1 0) in *.
      unfold m0, m1, wrap_u64, in_u64 in *. clearbody M w0 w1. f_equal; [f_equal|]; lia. }
  rewrite EH. clear EH. cbv beta iota.
  set (c0 := wrap_u64 (x0 + m0)). set (c1 := if c0 <? x0 then wrap_u64 (hi + m1 + 1) else hi + m1).
  set (C' := C + M).
  assert (EC : c1 * 18446744073709551616 + c0 = C' /\ in_u64 c0 /\ in_u64 c1).
  { unfold c1, c0, C', C, m0, m1, wrap_u64, in_u64. clearbody M. destruct (Z.ltb_spec ((x0 + M mod 18446744073709551616) mod 18446744073709551616) x0); lia. }
  destruct EC as (EC & HC0 & HC1).
  assert (HCb : 0 <= C' <= 20000000000000000000000000000000000) by (unfold C'; lia).
  mul_stage_gen c0 c1 C' k EC HC0 HC1 HCb Hk34.
  set (K0 := nth (Z.to_nat (k - 1)) T_BID_TEN2MK128_w0 0) in *. set (K1 := nth (Z.to_nat (k - 1)) T_BID_TEN2MK128_w1 0) in *.
  unfold in_u64 in RK0, RK1, P0, P1, P2, P3.
  assert (EK : rk k = K1 * 18446744073709551616 + K0) by reflexivity. rewrite EK in T0. clear TH TL.
  set (Q := C' / 10 ^ k) in *. set (r := C' mod 10 ^ k) in *.
  set (N := if (r =? 0) && (Q mod 2 =? 1) then Q - 1 else Q).
  assert (EN : rint_n RNE (1 <=? sb) C k = N) by (apply (rne_form (1 <=? sb) C k); lia).
  assert (QB : 0 <= Q < 2000000000000000000000000000000000).
  { unfold Q. split; [apply Z.div_pos; [lia|apply Z.pow_pos_nonneg; lia]|]. apply Z.div_lt_upper_bound; [apply Z.pow_pos_nonneg; lia|].
    assert (10 <= 10 ^ k) by (change 10 with (10 ^ 1) at 1; apply Z.pow_le_mono_r; lia).
    assert (C' < 20000000000000000000000000000000000) by (unfold C'; clear - HC HM; lia).
    set (D := 10 ^ k) in *. clearbody D. clear - H H2. lia. }
  assert (HN : 0 <= N <= Q).
  { pose proof (rint_n_bounds RNE (1 <=? sb) C k ltac:(lia) ltac:(lia)) as NB. rewrite EN in NB.
    assert (HQ0 : 0 <= C / 10 ^ k) by (apply Z.div_pos; [lia|apply Z.pow_pos_nonneg; lia]).
    split; [set (q := C / 10 ^ k) in *; clearbody q; clear - NB HQ0; lia|]. unfold N. destruct ((r =? 0) && (Q mod 2 =? 1)); clear; lia. }
  assert (FIN : forall r0 h, r0 = N mod 18446744073709551616 /\ h = N / 18446744073709551616 ->
    rint_spec RNE false x0 x1 st (r0, Z.lor h (Z.lor (sb * 9223372036854775808) 3476778912330022912), st)).
  { intros r0 h [-> ->].
    rewrite lor_res by (clear - HN QB; lia).
    assert (Hb : be < 6176) by lia.
    apply (rint_leaf RNE false x0 x1 st _ _ _ (N / 18446744073709551616) sb H0 H1 G24 HC Hb eq_refl).
    - unfold in_u64. clear - HN QB. lia.
    - clear - HN QB. lia.
    - transitivity N; [clear; lia|symmetry; exact EN].
    - reflexivity.
    - rewrite andb_false_r. reflexivity. }
  assert (Q64 : 23 <= k -> Q < 18446744073709551616).
  { intros K23. apply Z.div_lt_upper_bound; [apply Z.pow_pos_nonneg; lia|].
    assert (10 ^ 23 <= 10 ^ k) by (apply Z.pow_le_mono_r; lia). change (10 ^ 23) with 100000000000000000000000 in *. clear - H HCb. lia. }
  clear EN. clearbody Q r. unfold rq_q, rq_a in *. rewrite !land_1.
  step_if K3.
  { replace (k <=? 22) with true in * by lia. replace (k <=? 3) with true in * by lia.
    replace (rs k) with 0 in * by (destruct (Z.eqb_spec (rs k) 0); [lia|exfalso; lia]). rewrite Z.div_1_r in QQ.
    rewrite (lt_test0 p1 p0 K1 K0 r P0 P1 RK0 RK1 T0).
    clear - FIN QQ QB HN P2 P3.
    step_ifs; apply FIN; unfold N, wrap_u64 in *; destruct ((r =? 0) && (Q mod 2 =? 1)) eqn:CN; split_ifs_eq; lia. }
  step_if K22.
  { replace (k <=? 22) with true in * by lia. replace (k <=? 3) with false in * by lia.
    assert (Hs : 0 < rs k < 64) by (destruct (Z.eqb_spec (rs k) 0); destruct (Z.ltb_spec (rs k) 64); lia).
    destruct (shr128_words p2 p3 (rs k) ltac:(unfold in_u64; lia) ltac:(unfold in_u64; lia) Hs) as [S1 S2]. cbv zeta in S1, S2. rewrite S1, S2.
    rewrite (land_mask p2 k Hk34) by lia. rewrite (Z.mod_small (rs k) 64) by lia.
    rewrite QQ. set (m := p2 mod 2 ^ rs k) in *.
    rewrite <- !andb_assoc. rewrite (lt_test1 m p1 p0 K1 K0 r (proj1 QA) P0 P1 RK0 RK1 T0).
    clear - FIN QB HN.
    step_ifs; apply FIN; unfold N, wrap_u64 in *; destruct ((r =? 0) && (Q mod 2 =? 1)) eqn:CN; split_ifs_eq; lia. }
  replace (k <=? 22) with false in * by lia. replace (k <=? 3) with false in * by lia.
  assert (Hs : 64 <= rs k < 128) by (destruct (Z.ltb_spec (rs k) 64); lia).
  rewrite (shr64_word p3 (rs k) Hs). rewrite (land_mask p3 k Hk34) by lia.
  replace (rs k mod 64) with (rs k - 64) by (clear - Hs; lia).
  specialize (Q64 ltac:(lia)).
  rewrite QQ. set (m := p3 mod 2 ^ (rs k - 64)) in *.
  assert (Hm : 0 <= m) by (apply Z.mod_pos_bound; apply Z.pow_pos_nonneg; lia).
  rewrite <- !andb_assoc. rewrite (lt_test2 m p2 p1 p0 K1 K0 r Hm P2 P0 P1 RK0 RK1 T0).
  clear - FIN QB HN Q64.
  step_ifs; apply FIN; unfold N, wrap_u64 in *; destruct ((r =? 0) && (Q mod 2 =? 1)) eqn:CN; split_ifs_eq; lia.
Qed.

Lemma V_bid128_nearbyint_1 x0 x1 st : in_u64 x0 -> in_u64 x1 -> in_u32 st ->
  rint_spec RDN false x0 x1 st (i_bid128_nearbyint x0 x1 1 st).
Proof.
  intros H0 H1 Hst. unfold i_bid128_nearbyint. unfold_helpers. cbn [Z.eqb Pos.eqb orb]. red_lets.
  pose proof H0 as H0'. pose proof H1 as H1'. unfold in_u64 in H0', H1'.
  word_norm lia. mask_tests. pose proof (g5W_range x1) as R.
  step_if B.
  { (* NaN or infinity *)
    step_if A.
    - step_if EP; word_norm lia; step_if ES; rint_nan_leaf.
    - step_if SG; (apply rint_inf; [assumption|assumption|lia|]; unfold sgZ; rewrite SG; reflexivity). }
  step_if C24.
  { step_if Z0. 2:{ discriminate Z0. } rint_zero_leaf x1 ltac:(left; lia). }
  step_if NC.
  { step_if Z0. 2:{ discriminate Z0. } rint_zero_leaf x1 ltac:(right; left; unfold hiW, T34; lia). }
  step_if Z0.
  { rint_zero_leaf x1 ltac:(right; right; unfold hiW; lia). }
  assert (G24 : g5W x1 < 24) by lia.
  set (hi := x1 mod 562949953421312) in *.
  assert (Hhi : 0 <= hi < 562949953421312) by (apply Z.mod_pos_bound; reflexivity).
  set (C := hi * 18446744073709551616 + x0).
  assert (HC : 0 < C < 10000000000000000000000000000000000) by (unfold C; lia).
  set (be := (x1 / 562949953421312) mod 16384) in *.
  assert (Hbe : 0 <= be <= 12287) by (unfold be, g5W in *; lia).
  set (sb := (x1 / 9223372036854775808) mod 2) in *.
  assert (Hsb : 0 <= sb <= 1) by (unfold sb; lia).
  set (k := 6176 - be) in *.
  assert (SMALL : forall r0 r1, be < 6176 -> C < 10 ^ k -> r0 = (if 1 <=? sb then 1 else 0) ->
    r1 = sb * 9223372036854775808 + 3476778912330022912 -> rint_spec RDN false x0 x1 st (r0, r1, st)).
  { intros r0 r1 Hb HS -> ->. apply (rint_leaf RDN false x0 x1 st _ _ _ 0 sb H0 H1 G24 HC Hb eq_refl).
    - unfold in_u64. destruct (1 <=? sb); lia.
    - lia.
    - rewrite (rint_n_small RDN _ C k) by (split; [exact (proj1 HC)|exact HS]). destruct (1 <=? sb); reflexivity.
    - lia.
    - rewrite andb_false_r. reflexivity. }
  step_if SM.
  { assert (HS : C < 10 ^ k) by (apply Z.lt_le_trans with (10 ^ 34); [exact (proj2 HC)|apply Z.pow_le_mono_r; lia]).
    step_if SGN; (apply SMALL; [lia|exact HS|destruct (Z.leb_spec 1 sb); lia|lia]). }
  word_norm lia.
  nbits_stage x0 hi C.
  assert (Ee : wrap_i32 (wrap_u64 (be - 6176)) = be - 6176) by (unfold wrap_i32, wrap_u64; lia).
  rewrite !Ee. clear Ee.
  step_if EXP.
  { apply rint_ident; [assumption|assumption|exact G24|exact HC|change (beW x1) with be; lia]. }
  digits_stage x0 hi C.
  pose proof (nd_range C HC) as Hnd. pose proof (nd_bounds C (proj1 HC)) as Bnd.
  set (nd := ndigits C) in *.
  assert (Hk : 1 <= k) by lia.
  replace (be - 6176) with (- k) by (unfold k; ring). rewrite Z.opp_involutive.
  wrap_ids lia.
  step_if QE.
  2: { assert (HS : C < 10 ^ k) by (apply Z.lt_le_trans with (10 ^ nd); [exact (proj2 Bnd)|apply Z.pow_le_mono_r; lia]).
    step_if SGN; (apply SMALL; [lia|exact HS|destruct (Z.leb_spec 1 sb); lia|lia]). }
  mul_stage x0 hi C k HC Hk H0.
  set (K0 := nth (Z.to_nat (k - 1)) T_BID_TEN2MK128_w0 0) in *. set (K1 := nth (Z.to_nat (k - 1)) T_BID_TEN2MK128_w1 0) in *.
  unfold in_u64 in RK0, RK1, P0, P1, P2, P3.
  assert (EK : rk k = K1 * 18446744073709551616 + K0) by reflexivity. rewrite EK in T0. clear TH TL.
  set (Q := C / 10 ^ k) in *. set (r := C mod 10 ^ k) in *.
  set (N := if (1 <=? sb) && negb (r =? 0) then Q + 1 else Q).
  assert (FIN : forall r0 h, r0 = N mod 18446744073709551616 /\ h = N / 18446744073709551616 ->
    rint_spec RDN false x0 x1 st (r0, Z.lor h (Z.lor (sb * 9223372036854775808) 3476778912330022912), st)).
  { intros r0 h [-> ->]. assert (HN : Q <= N <= Q + 1) by (unfold N; destruct ((1 <=? sb) && negb (r =? 0)); clear; lia).
    rewrite lor_res by (clear - HN QB QQ; lia).
    assert (Hb : be < 6176) by lia.
    apply (rint_leaf RDN false x0 x1 st _ _ _ (N / 18446744073709551616) sb H0 H1 G24 HC Hb eq_refl).
    - unfold in_u64. clear - HN QB QQ. lia.
    - clear - HN QB QQ. lia.
    - transitivity N; [clear; lia|reflexivity].
    - reflexivity.
    - rewrite andb_false_r. reflexivity. }
  assert (Q64 : 23 <= k -> Q < 18446744073709551616).
  { intros K23. apply Z.div_lt_upper_bound; [apply Z.pow_pos_nonneg; lia|].
    assert (10 ^ 23 <= 10 ^ k) by (apply Z.pow_le_mono_r; lia). change (10 ^ 23) with 100000000000000000000000 in *. clear - H HC. lia. }
  clearbody Q r. unfold rq_q, rq_a in *.
  step_if K3.
  { replace (k <=? 22) with true in * by lia. replace (k <=? 3) with true in * by lia.
    replace (rs k) with 0 in * by (destruct (Z.eqb_spec (rs k) 0); [lia|exfalso; lia]). rewrite Z.div_1_r in QQ, QB. rewrite QQ in QB.
    rewrite (ge_test0 p1 p0 K1 K0 r P0 P1 RK0 RK1 T0).
    clear - FIN QQ QB Hsb P2 P3.
    step_ifs; apply FIN; unfold N, wrap_u64; destruct ((1 <=? sb) && negb (r =? 0)) eqn:CN; split_ifs_eq; lia. }
  step_if K22.
  { replace (k <=? 22) with true in * by lia. replace (k <=? 3) with false in * by lia.
    assert (Hs : 0 < rs k < 64) by (destruct (Z.eqb_spec (rs k) 0); destruct (Z.ltb_spec (rs k) 64); lia).
    destruct (shr128_words p2 p3 (rs k) ltac:(unfold in_u64; lia) ltac:(unfold in_u64; lia) Hs) as [S1 S2]. cbv zeta in S1, S2. rewrite S1, S2.
    rewrite (land_mask p2 k Hk34) by lia. rewrite (Z.mod_small (rs k) 64) by lia.
    rewrite QQ in QB |- *. set (m := p2 mod 2 ^ rs k) in *.
    rewrite (ge_test1 m p1 p0 K1 K0 r (proj1 QA) P0 P1 RK0 RK1 T0).
    clear - FIN QQ QB Hsb.
    step_ifs; apply FIN; unfold N, wrap_u64; destruct ((1 <=? sb) && negb (r =? 0)) eqn:CN; split_ifs_eq; lia. }
  replace (k <=? 22) with false in * by lia. replace (k <=? 3) with false in * by lia.
  assert (Hs : 64 <= rs k < 128) by (destruct (Z.ltb_spec (rs k) 64); lia).
  rewrite (shr64_word p3 (rs k) Hs). rewrite (land_mask p3 k Hk34) by lia.
  replace (rs k mod 64) with (rs k - 64) by (clear - Hs; lia).
  specialize (Q64 ltac:(lia)).
  rewrite QQ in QB |- *. set (m := p3 mod 2 ^ (rs k - 64)) in *.
  assert (Hm : 0 <= m) by (apply Z.mod_pos_bound; apply Z.pow_pos_nonneg; lia).
  rewrite (ge_test2 m p2 p1 p0 K1 K0 r Hm P2 P0 P1 RK0 RK1 T0).
  clear - FIN QQ QB Hsb Q64.
  step_ifs; apply FIN; unfold N, wrap_u64; destruct ((1 <=? sb) && negb (r =? 0)) eqn:CN; split_ifs_eq; lia.
Qed.

Lemma V_bid128_nearbyint_2 x0 x1 st : in_u64 x0 -> in_u64 x1 -> in_u32 st ->
  rint_spec RUP false x0 x1 st (i_bid128_nearbyint x0 x1 2 st).
Proof.
  intros H0 H1 Hst. unfold i_bid128_nearbyint. unfold_helpers. cbn [Z.eqb Pos.eqb orb]. red_lets.
  pose proof H0 as H0'. pose proof H1 as H1'. unfold in_u64 in H0', H1'.
  word_norm lia. mask_tests. pose proof (g5W_range x1) as R.
  step_if B.
  { (* NaN or infinity *)
    step_if A.
    - step_if EP; word_norm lia; step_if ES; rint_nan_leaf.
    - step_if SG; (apply rint_inf; [assumption|assumption|lia|]; unfold sgZ; rewrite SG; reflexivity). }
  step_if C24.
  { step_if Z0. 2:{ discriminate Z0. } rint_zero_leaf x1 ltac:(left; lia). }
  step_if NC.
  { step_if Z0. 2:{ discriminate Z0. } rint_zero_leaf x1 ltac:(right; left; unfold hiW, T34; lia). }
  step_if Z0.
  { rint_zero_leaf x1 ltac:(right; right; unfold hiW; lia). }
  assert (G24 : g5W x1 < 24) by lia.
  set (hi := x1 mod 562949953421312) in *.
  assert (Hhi : 0 <= hi < 562949953421312) by (apply Z.mod_pos_bound; reflexivity).
  set (C := hi * 18446744073709551616 + x0).
  assert (HC : 0 < C < 10000000000000000000000000000000000) by (unfold C; lia).
  set (be := (x1 / 562949953421312) mod 16384) in *.
  assert (Hbe : 0 <= be <= 12287) by (unfold be, g5W in *; lia).
  set (sb := (x1 / 9223372036854775808) mod 2) in *.
  assert (Hsb : 0 <= sb <= 1) by (unfold sb; lia).
  set (k := 6176 - be) in *.
  assert (SMALL : forall r0 r1, be < 6176 -> C < 10 ^ k -> r0 = (if 1 <=? sb then 0 else 1) ->
    r1 = sb * 9223372036854775808 + 3476778912330022912 -> rint_spec RUP false x0 x1 st (r0, r1, st)).
  { intros r0 r1 Hb HS -> ->. apply (rint_leaf RUP false x0 x1 st _ _ _ 0 sb H0 H1 G24 HC Hb eq_refl).
    - unfold in_u64. destruct (1 <=? sb); lia.
    - lia.
    - rewrite (rint_n_small RUP _ C k) by (split; [exact (proj1 HC)|exact HS]). destruct (1 <=? sb); reflexivity.
    - lia.
    - rewrite andb_false_r. reflexivity. }
  step_if SM.
  { assert (HS : C < 10 ^ k) by (apply Z.lt_le_trans with (10 ^ 34); [exact (proj2 HC)|apply Z.pow_le_mono_r; lia]).
    step_if SGN; (apply SMALL; [lia|exact HS|destruct (Z.leb_spec 1 sb); lia|lia]). }
  word_norm lia.
  nbits_stage x0 hi C.
  assert (Ee : wrap_i32 (wrap_u64 (be - 6176)) = be - 6176) by (unfold wrap_i32, wrap_u64; lia).
  rewrite !Ee. clear Ee.
  step_if EXP.
  { apply rint_ident; [assumption|assumption|exact G24|exact HC|change (beW x1) with be; lia]. }
  digits_stage x0 hi C.
  pose proof (nd_range C HC) as Hnd. pose proof (nd_bounds C (proj1 HC)) as Bnd.
  set (nd := ndigits C) in *.
  assert (Hk : 1 <= k) by lia.
  replace (be - 6176) with (- k) by (unfold k; ring). rewrite Z.opp_involutive.
  wrap_ids lia.
  step_if QE.
  2: { assert (HS : C < 10 ^ k) by (apply Z.lt_le_trans with (10 ^ nd); [exact (proj2 Bnd)|apply Z.pow_le_mono_r; lia]).
    step_if SGN; (apply SMALL; [lia|exact HS|destruct (Z.leb_spec 1 sb); lia|lia]). }
  mul_stage x0 hi C k HC Hk H0.
  set (K0 := nth (Z.to_nat (k - 1)) T_BID_TEN2MK128_w0 0) in *. set (K1 := nth (Z.to_nat (k - 1)) T_BID_TEN2MK128_w1 0) in *.
  unfold in_u64 in RK0, RK1, P0, P1, P2, P3.
  assert (EK : rk k = K1 * 18446744073709551616 + K0) by reflexivity. rewrite EK in T0. clear TH TL.
  set (Q := C / 10 ^ k) in *. set (r := C mod 10 ^ k) in *.
  set (N := if negb (1 <=? sb) && negb (r =? 0) then Q + 1 else Q).
  assert (FIN : forall r0 h, r0 = N mod 18446744073709551616 /\ h = N / 18446744073709551616 ->
    rint_spec RUP false x0 x1 st (r0, Z.lor h (Z.lor (sb * 9223372036854775808) 3476778912330022912), st)).
  { intros r0 h [-> ->]. assert (HN : Q <= N <= Q + 1) by (unfold N; destruct (negb (1 <=? sb) && negb (r =? 0)); clear; lia).
    rewrite lor_res by (clear - HN QB QQ; lia).
    assert (Hb : be < 6176) by lia.
    apply (rint_leaf RUP false x0 x1 st _ _ _ (N / 18446744073709551616) sb H0 H1 G24 HC Hb eq_refl).
    - unfold in_u64. clear - HN QB QQ. lia.
    - clear - HN QB QQ. lia.
    - transitivity N; [clear; lia|reflexivity].
    - reflexivity.
    - rewrite andb_false_r. reflexivity. }
  assert (Q64 : 23 <= k -> Q < 18446744073709551616).
  { intros K23. apply Z.div_lt_upper_bound; [apply Z.pow_pos_nonneg; lia|].
    assert (10 ^ 23 <= 10 ^ k) by (apply Z.pow_le_mono_r; lia). change (10 ^ 23) with 100000000000000000000000 in *. clear - H HC. lia. }
  clearbody Q r. unfold rq_q, rq_a in *.
  step_if K3.
  { replace (k <=? 22) with true in * by lia. replace (k <=? 3) with true in * by lia.
    replace (rs k) with 0 in * by (destruct (Z.eqb_spec (rs k) 0); [lia|exfalso; lia]). rewrite Z.div_1_r in QQ, QB. rewrite QQ in QB.
    rewrite (ge_test0 p1 p0 K1 K0 r P0 P1 RK0 RK1 T0).
    clear - FIN QQ QB Hsb P2 P3.
    step_ifs; apply FIN; unfold N, wrap_u64; destruct (negb (1 <=? sb) && negb (r =? 0)) eqn:CN; split_ifs_eq; lia. }
  step_if K22.
  { replace (k <=? 22) with true in * by lia. replace (k <=? 3) with false in * by lia.
    assert (Hs : 0 < rs k < 64) by (destruct (Z.eqb_spec (rs k) 0); destruct (Z.ltb_spec (rs k) 64); lia).
    destruct (shr128_words p2 p3 (rs k) ltac:(unfold in_u64; lia) ltac:(unfold in_u64; lia) Hs) as [S1 S2]. cbv zeta in S1, S2. rewrite S1, S2.
    rewrite (land_mask p2 k Hk34) by lia. rewrite (Z.mod_small (rs k) 64) by lia.
    rewrite QQ in QB |- *. set (m := p2 mod 2 ^ rs k) in *.
    rewrite (ge_test1 m p1 p0 K1 K0 r (proj1 QA) P0 P1 RK0 RK1 T0).
    clear - FIN QQ QB Hsb.
    step_ifs; apply FIN; unfold N, wrap_u64; destruct (negb (1 <=? sb) && negb (r =? 0)) eqn:CN; split_ifs_eq; lia. }
  replace (k <=? 22) with false in * by lia. replace (k <=? 3) with false in * by lia.
  assert (Hs : 64 <= rs k < 128) by (destruct (Z.ltb_spec (rs k) 64); lia).
  rewrite (shr64_word p3 (rs k) Hs). rewrite (land_mask p3 k Hk34) by lia.
  replace (rs k mod 64) with (rs k - 64) by (clear - Hs; lia).
  specialize (Q64 ltac:(lia)).
  rewrite QQ in QB |- *. set (m := p3 mod 2 ^ (rs k - 64)) in *.
  assert (Hm : 0 <= m) by (apply Z.mod_pos_bound; apply Z.pow_pos_nonneg; lia).
  rewrite (ge_test2 m p2 p1 p0 K1 K0 r Hm P2 P0 P1 RK0 RK1 T0).
  clear - FIN QQ QB Hsb Q64.
  step_ifs; apply FIN; unfold N, wrap_u64; destruct (negb (1 <=? sb) && negb (r =? 0)) eqn:CN; split_ifs_eq; lia.
Qed.

Lemma V_bid128_nearbyint_3 x0 x1 st : in_u64 x0 -> in_u64 x1 -> in_u32 st ->
  rint_spec RTZ false x0 x1 st (i_bid128_nearbyint x0 x1 3 st).
Proof.
  intros H0 H1 Hst. unfold i_bid128_nearbyint. unfold_helpers. cbn [Z.eqb Pos.eqb orb]. red_lets.
  pose proof H0 as H0'. pose proof H1 as H1'. unfold in_u64 in H0', H1'.
  word_norm lia. mask_tests. pose proof (g5W_range x1) as R.
  step_if B.
  { (* NaN or infinity *)
    step_if A.
    - step_if EP; word_norm lia; step_if ES; rint_nan_leaf.
    - step_if SG; (apply rint_inf; [assumption|assumption|lia|]; unfold sgZ; rewrite SG; reflexivity). }
  step_if C24.
  { step_if Z0. 2:{ discriminate Z0. } rint_zero_leaf x1 ltac:(left; lia). }
  step_if NC.
  { step_if Z0. 2:{ discriminate Z0. } rint_zero_leaf x1 ltac:(right; left; unfold hiW, T34; lia). }
  step_if Z0.
  { rint_zero_leaf x1 ltac:(right; right; unfold hiW; lia). }
  set (hi := x1 mod 562949953421312) in *.
  assert (Hhi : 0 <= hi < 562949953421312) by (apply Z.mod_pos_bound; reflexivity).
  set (C := hi * 18446744073709551616 + x0).
  assert (HC : 0 < C < 10000000000000000000000000000000000) by (unfold C; lia).
  set (be := (x1 / 562949953421312) mod 16384) in *.
  assert (Hbe : 0 <= be <= 12287) by (unfold be, g5W in *; lia).
  assert (G24 : g5W x1 < 24) by lia.
  assert (Ebe : beW x1 = be) by reflexivity. assert (Ehi : hiW x1 = hi) by reflexivity.
  step_if SM.
  { assert (QS : C / 10 ^ (6176 - be) = 0) by (apply (quot_small C 34); [exact HC|lia]).
    apply (rint_general RTZ false x0 x1 st _ _ _ 0); try assumption; try lia; rewrite ?Ebe, ?Ehi; fold C; try exact HC; try lia.
    - unfold in_u64; lia.
    - unfold rint_n. cbv zeta. lia.
    - unfold sgZ. rewrite lor_hi63 by lia. lia.
    - rewrite andb_false_r. reflexivity. }
  word_norm lia.
  nbits_stage x0 hi C.
  assert (Ee : wrap_i32 (wrap_u64 (be - 6176)) = be - 6176) by (unfold wrap_i32, wrap_u64; lia).
  rewrite !Ee. clear Ee.
  step_if EXP.
  { apply rint_ident; try assumption; rewrite ?Ebe, ?Ehi; fold C; try exact HC; lia. }
  digits_stage x0 hi C.
  pose proof (nd_range C HC) as Hnd. pose proof (nd_bounds C (proj1 HC)) as Bnd.
  set (nd := ndigits C) in *.
  set (k := 6176 - be) in *. assert (Hk : 1 <= k) by lia.
  replace (be - 6176) with (- k) by (unfold k; ring). rewrite Z.opp_involutive.
  wrap_ids lia.
  step_if QE.
  2: { assert (QS : C / 10 ^ k = 0) by (apply (quot_small C nd); [lia|lia]).
    apply (rint_general RTZ false x0 x1 st _ _ _ 0); try assumption; try lia; rewrite ?Ebe, ?Ehi; fold C; fold k; try exact HC; try lia.
    - unfold in_u64; lia.
    - unfold rint_n. cbv zeta. lia.
    - unfold sgZ. rewrite lor_hi63 by lia. lia.
    - rewrite andb_false_r. reflexivity. }
  assert (Hk34 : 1 <= k <= 34) by lia.
  destruct (rint_row k Hk34) as (RK0 & RK1 & RS & RB & RZ & RM & RE1 & RE2). cbv zeta in RS, RB, RZ, RM.
  pose proof (R_mul_128x128_to_256 x0 hi _ _ H0 ltac:(unfold in_u64; lia) RK0 RK1) as MUL.
  destruct (i___mul_128x128_to_256 _ _ _ _) as [[[p0 p1] p2] p3]. destruct MUL as (P0 & P1 & P2 & P3 & MUL).
  change (hi * 18446744073709551616 + x0) with C in MUL. fold (rk k) in MUL.
  destruct (rq_core k C p0 p1 p2 p3 Hk34 ltac:(lia) P0 P1 P2 P3 MUL) as (QQ & QA & _). cbv zeta in QA.
  change (nth (Z.to_nat (k - 1)) T_BID_SHIFTRIGHT128 0) with (rs k).
  pose proof (quot_bound C k HC Hk) as QB. rewrite <- QQ in QB.
  assert (FIN : forall r0 h, in_u64 r0 -> 0 <= h -> h * 18446744073709551616 + r0 = rq_q k p2 p3 ->
    rint_spec RTZ false x0 x1 st (r0, Z.lor h (Z.lor ((x1 / 9223372036854775808) mod 2 * 9223372036854775808) 3476778912330022912), st)).
  { intros r0 h R0 Hh E. assert (h < 562949953421312) by (unfold in_u64 in R0; lia).
    apply (rint_general RTZ false x0 x1 st _ _ _ h); try assumption; try lia; rewrite ?Ebe, ?Ehi; fold C; fold k; try exact HC; try lia.
    - unfold rint_n. cbv zeta. lia.
    - unfold sgZ. rewrite lor_res by lia. reflexivity.
    - rewrite andb_false_r. reflexivity. }
  unfold rq_q in *. cbv beta iota.
  step_if K3.
  { apply FIN; [exact P2|unfold in_u64 in P3; lia|]. replace (k <=? 22) with true by lia.
    replace (rs k) with 0 by (destruct (Z.eqb_spec (rs k) 0); [lia|exfalso; lia]). rewrite Z.div_1_r. reflexivity. }
  step_if K22.
  { replace (k <=? 22) with true in * by lia.
    assert (Hs : 0 < rs k < 64) by (destruct (Z.eqb_spec (rs k) 0); destruct (Z.ltb_spec (rs k) 64); lia).
    destruct (shr128_words p2 p3 (rs k) P2 P3 Hs) as [S1 S2]. cbv zeta in S1, S2. rewrite S1, S2.
    destruct (words_split ((p3 * 18446744073709551616 + p2) / 2 ^ rs k) ltac:(lia)) as (W1 & W2 & W3).
    apply FIN; assumption. }
  replace (k <=? 22) with false in * by lia.
  assert (Hs : 64 <= rs k < 128) by (destruct (Z.ltb_spec (rs k) 64); lia).
  rewrite (shr64_word p3 (rs k) Hs).
  set (q3 := p3 / 2 ^ (rs k - 64)) in *. clearbody q3.
  assert (Q64 : q3 < 18446744073709551616).
  { rewrite QQ. apply Z.div_lt_upper_bound; [apply Z.pow_pos_nonneg; lia|].
    assert (10 ^ 23 <= 10 ^ k) by (apply Z.pow_le_mono_r; lia). change (10 ^ 23) with 100000000000000000000000 in *. clear - H HC. lia. }
  apply (FIN _ 0); [clear - QB Q64; unfold in_u64; lia|apply Z.le_refl|ring].
Qed.

Lemma V_bid128_nearbyint_4 x0 x1 st : in_u64 x0 -> in_u64 x1 -> in_u32 st ->
  rint_spec RNA false x0 x1 st (i_bid128_nearbyint x0 x1 4 st).
Proof.
  intros H0 H1 Hst. unfold i_bid128_nearbyint. unfold_helpers. cbn [Z.eqb Pos.eqb orb]. red_lets.
  pose proof H0 as H0'. pose proof H1 as H1'. unfold in_u64 in H0', H1'.
  word_norm lia. mask_tests. pose proof (g5W_range x1) as R.
  step_if B.
  { (* NaN or infinity *)
    step_if A.
    - step_if EP; word_norm lia; step_if ES; rint_nan_leaf.
    - step_if SG; (apply rint_inf; [assumption|assumption|lia|]; unfold sgZ; rewrite SG; reflexivity). }
  step_if C24.
  { step_if Z0. 2:{ discriminate Z0. } rint_zero_leaf x1 ltac:(left; lia). }
  step_if NC.
  { step_if Z0. 2:{ discriminate Z0. } rint_zero_leaf x1 ltac:(right; left; unfold hiW, T34; lia). }
  step_if Z0.
  { rint_zero_leaf x1 ltac:(right; right; unfold hiW; lia). }
  assert (G24 : g5W x1 < 24) by lia.
  set (hi := x1 mod 562949953421312) in *.
  assert (Hhi : 0 <= hi < 562949953421312) by (apply Z.mod_pos_bound; reflexivity).
  set (C := hi * 18446744073709551616 + x0).
  assert (HC : 0 < C < 10000000000000000000000000000000000) by (unfold C; lia).
  set (be := (x1 / 562949953421312) mod 16384) in *.
  assert (Hbe : 0 <= be <= 12287) by (unfold be, g5W in *; lia).
  set (sb := (x1 / 9223372036854775808) mod 2) in *.
  assert (Hsb : 0 <= sb <= 1) by (unfold sb; lia).
  set (k := 6176 - be) in *.
  assert (SMALL : be < 6176 -> 2 * C < 10 ^ k ->
    rint_spec RNA false x0 x1 st (0, Z.lor (sb * 9223372036854775808) 3476778912330022912, st)).
  { intros Hb HS. rewrite lor_hi63 by lia. apply (rint_leaf RNA false x0 x1 st _ _ _ 0 sb H0 H1 G24 HC Hb eq_refl).
    - unfold in_u64. lia.
    - lia.
    - rewrite (rint_n_small RNA _ C k) by (split; [exact (proj1 HC)|lia]). replace (10 ^ k <=? 2 * C) with false by lia. reflexivity.
    - lia.
    - rewrite andb_false_r. reflexivity. }
  step_if SM.
  { apply SMALL; [lia|]. apply Z.lt_le_trans with (10 ^ 35); [change (10 ^ 35) with 100000000000000000000000000000000000; lia|apply Z.pow_le_mono_r; lia]. }
  word_norm lia.
  nbits_stage x0 hi C.
  assert (Ee : wrap_i32 (wrap_u64 (be - 6176)) = be - 6176) by (unfold wrap_i32, wrap_u64; lia).
  rewrite !Ee. clear Ee.
  step_if EXP.
  { apply rint_ident; [assumption|assumption|exact G24|exact HC|change (beW x1) with be; lia]. }
  digits_stage x0 hi C.
  pose proof (nd_range C HC) as Hnd. pose proof (nd_bounds C (proj1 HC)) as Bnd.
  set (nd := ndigits C) in *.
  assert (Hk : 1 <= k) by lia.
  replace (be - 6176) with (- k) by (unfold k; ring). rewrite Z.opp_involutive.
  wrap_ids lia.
  step_if QE.
  2: { apply SMALL; [lia|]. assert (10 ^ nd <= 10 ^ (k - 1)) by (apply Z.pow_le_mono_r; lia).
    replace k with (Z.succ (k - 1)) at 1 by lia. rewrite Z.pow_succ_r by lia. lia. }
  assert (Hk34 : 1 <= k <= 34) by lia.
  destruct (mid_words k Hk34) as (HM & M19 & M20). cbv zeta in HM, M19, M20.
  set (M := 5 * 10 ^ (k - 1)) in *.
  set (m0 := M mod 18446744073709551616). set (m1 := M / 18446744073709551616).
  goal_term ltac:(fun t => let h := spine_head t in assert (EH : h = (wrap_u64 (x0 + m0), hi + m1))).
  { destruct (Z.leb_spec k 19) as [K19|K19].
    - destruct (M19 K19) as [E1 E2]. rewrite E1. unfold m0, m1. clearbody M. f_equal; [f_equal|]; lia.
    - destruct (M20 ltac:(lia)) as [E1 E2]. rewrite (wrap_usize_id (k - 20)) by (unfold in_u64; lia).
      set (w0 := nth (Z.to_nat (k - 20)) T_BID_MIDPOINT128_w0 0) in *. set (w1 := nth (Z.to_nat (k - 20)) T_BID_MIDPOINT128_w1 0) in *.
      unfold m0, m1, wrap_u64, in_u64 in *. clearbody M w0 w1. f_equal; [f_equal|]; lia. }
  rewrite EH. clear EH. cbv beta iota.
  set (c0 := wrap_u64 (x0 + m0)). set (c1 := if c0 <? x0 then wrap_u64 (hi + m1 + 1) else hi + m1).
  set (C' := C + M).
  assert (EC : c1 * 18446744073709551616 + c0 = C' /\ in_u64 c0 /\ in_u64 c1).
  { unfold c1, c0, C', C, m0, m1, wrap_u64, in_u64. clearbody M. destruct (Z.ltb_spec ((x0 + M mod 18446744073709551616) mod 18446744073709551616) x0); lia. }
  destruct EC as (EC & HC0 & HC1).
  assert (HCb : 0 <= C' <= 20000000000000000000000000000000000) by (unfold C'; lia).
  mul_stage_gen c0 c1 C' k EC HC0 HC1 HCb Hk34.
  set (K0 := nth (Z.to_nat (k - 1)) T_BID_TEN2MK128_w0 0) in *. set (K1 := nth (Z.to_nat (k - 1)) T_BID_TEN2MK128_w1 0) in *.
  unfold in_u64 in RK0, RK1, P0, P1, P2, P3.
  assert (EK : rk k = K1 * 18446744073709551616 + K0) by reflexivity. rewrite EK in T0. clear TH TL.
  set (Q := C' / 10 ^ k) in *. set (r := C' mod 10 ^ k) in *.
  set (N := Q).
  assert (EN : rint_n RNA (1 <=? sb) C k = N) by (apply (rna_form (1 <=? sb) C k); lia).
  assert (QB : 0 <= Q < 2000000000000000000000000000000000).
  { unfold Q. split; [apply Z.div_pos; [lia|apply Z.pow_pos_nonneg; lia]|]. apply Z.div_lt_upper_bound; [apply Z.pow_pos_nonneg; lia|].
    assert (10 <= 10 ^ k) by (change 10 with (10 ^ 1) at 1; apply Z.pow_le_mono_r; lia).
    assert (C' < 20000000000000000000000000000000000) by (unfold C'; clear - HC HM; lia).
    set (D := 10 ^ k) in *. clearbody D. clear - H H2. lia. }
  assert (FIN : forall r0 h, r0 = N mod 18446744073709551616 /\ h = N / 18446744073709551616 ->
    rint_spec RNA false x0 x1 st (r0, Z.lor h (Z.lor (sb * 9223372036854775808) 3476778912330022912), st)).
  { intros r0 h [-> ->]. unfold N.
    rewrite lor_res by (clear - QB; lia).
    assert (Hb : be < 6176) by lia.
    apply (rint_leaf RNA false x0 x1 st _ _ _ (Q / 18446744073709551616) sb H0 H1 G24 HC Hb eq_refl).
    - unfold in_u64. clear - QB. lia.
    - clear - QB. lia.
    - transitivity N; [unfold N; clear; lia|symmetry; exact EN].
    - reflexivity.
    - rewrite andb_false_r. reflexivity. }
  assert (Q64 : 23 <= k -> Q < 18446744073709551616).
  { intros K23. apply Z.div_lt_upper_bound; [apply Z.pow_pos_nonneg; lia|].
    assert (10 ^ 23 <= 10 ^ k) by (apply Z.pow_le_mono_r; lia). change (10 ^ 23) with 100000000000000000000000 in *. clear - H HCb. lia. }
  clear EN. clearbody Q r. unfold rq_q, rq_a in *.
  step_if K3.
  { replace (k <=? 22) with true in * by lia.
    replace (rs k) with 0 in * by (destruct (Z.eqb_spec (rs k) 0); [lia|exfalso; lia]). rewrite Z.div_1_r in QQ.
    clear - FIN QQ QB P2 P3.
    apply FIN; unfold N; lia. }
  step_if K22.
  { replace (k <=? 22) with true in * by lia.
    assert (Hs : 0 < rs k < 64) by (destruct (Z.eqb_spec (rs k) 0); destruct (Z.ltb_spec (rs k) 64); lia).
    destruct (shr128_words p2 p3 (rs k) ltac:(unfold in_u64; lia) ltac:(unfold in_u64; lia) Hs) as [S1 S2]. cbv zeta in S1, S2. rewrite S1, S2.
    rewrite QQ. apply FIN; unfold N; split; reflexivity. }
  replace (k <=? 22) with false in * by lia.
  assert (Hs : 64 <= rs k < 128) by (destruct (Z.ltb_spec (rs k) 64); lia).
  rewrite (shr64_word p3 (rs k) Hs).
  specialize (Q64 ltac:(lia)).
  rewrite QQ. clear - FIN QB Q64.
  apply FIN; unfold N; lia.
Qed.

Lemma OK_bid128_nearbyint_0 x0 x1 st : in_u64 x0 -> in_u64 x1 -> in_u32 st -> ok_bid128_nearbyint x0 x1 0 st = true.
Proof.
  intros H0 H1 Hst. unfold ok_bid128_nearbyint. unfold_helpers. cbn [Z.eqb Pos.eqb orb]. red_lets.
  pose proof H0 as H0'. pose proof H1 as H1'. unfold in_u64 in H0', H1'.
  word_norm lia. mask_tests. pose proof (g5W_range x1) as R.
  step_if B. { step_ifs; reflexivity. }
  step_if C24. { step_if Z0; [step_ifs; reflexivity|discriminate Z0]. }
  step_if NC. { step_if Z0; [step_ifs; reflexivity|discriminate Z0]. }
  step_if Z0. { step_ifs; reflexivity. }
  step_if SM. { step_ifs; reflexivity. }
  set (hi := x1 mod 562949953421312) in *.
  assert (Hhi : 0 <= hi < 562949953421312) by (apply Z.mod_pos_bound; reflexivity).
  set (C := hi * 18446744073709551616 + x0).
  assert (HC : 0 < C < 10000000000000000000000000000000000) by (unfold C; lia).
  set (be := (x1 / 562949953421312) mod 16384) in *.
  assert (Hbe : 0 <= be <= 12287) by (unfold be, g5W in *; lia).
  word_norm lia.
  nbits_stage_ok x0 hi C.
  digits_stage_ok x0 hi C.
  assert (Ee : wrap_i32 (wrap_u64 (be - 6176)) = be - 6176) by (unfold wrap_i32, wrap_u64; lia).
  rewrite !Ee. clear Ee.
  step_if EXP. { reflexivity. }
  pose proof (nd_range C HC) as Hnd. set (nd := ndigits C) in *.
  set (k := 6176 - be) in *. assert (Hk : 1 <= k) by lia.
  replace (be - 6176) with (- k) by (unfold k; ring). rewrite Z.opp_involutive.
  wrap_ids lia.
  step_if QE. 2:{ step_ifs; reflexivity. }
  assert (Hk34 : 1 <= k <= 34) by lia.
  destruct (rint_row k Hk34) as (RK0 & RK1 & RS & RB & RZ & _). cbv zeta in RS, RB, RZ.
  change (nth (Z.to_nat (k - 1)) T_BID_SHIFTRIGHT128 0) with (rs k).
  assert (F2 : 4 <= k <= 22 -> 0 < rs k < 64) by (intros; destruct (Z.eqb_spec (rs k) 0); destruct (Z.ltb_spec (rs k) 64); lia).
  assert (F3 : 23 <= k -> 64 <= rs k < 128) by (intros; destruct (Z.ltb_spec (rs k) 64); lia).
  clear RB RZ HC Hnd NC Z0 SM C24 B R.
  replace ((0 <=? k - 1) && (k - 1 <? 34)) with true by lia. cbn [andb]. repeat rewrite if_tt.
  ok_spine ltac:(wrap_ids lia; lia).
Qed.

Lemma OK_bid128_nearbyint_1 x0 x1 st : in_u64 x0 -> in_u64 x1 -> in_u32 st -> ok_bid128_nearbyint x0 x1 1 st = true.
Proof.
  intros H0 H1 Hst. unfold ok_bid128_nearbyint. unfold_helpers. cbn [Z.eqb Pos.eqb orb]. red_lets.
  pose proof H0 as H0'. pose proof H1 as H1'. unfold in_u64 in H0', H1'.
  word_norm lia. mask_tests. pose proof (g5W_range x1) as R.
  step_if B. { step_ifs; reflexivity. }
  step_if C24. { step_if Z0; [step_ifs; reflexivity|discriminate Z0]. }
  step_if NC. { step_if Z0; [step_ifs; reflexivity|discriminate Z0]. }
  step_if Z0. { step_ifs; reflexivity. }
  step_if SM. { step_ifs; reflexivity. }
  set (hi := x1 mod 562949953421312) in *.
  assert (Hhi : 0 <= hi < 562949953421312) by (apply Z.mod_pos_bound; reflexivity).
  set (C := hi * 18446744073709551616 + x0).
  assert (HC : 0 < C < 10000000000000000000000000000000000) by (unfold C; lia).
  set (be := (x1 / 562949953421312) mod 16384) in *.
  assert (Hbe : 0 <= be <= 12287) by (unfold be, g5W in *; lia).
  word_norm lia.
  nbits_stage_ok x0 hi C.
  digits_stage_ok x0 hi C.
  assert (Ee : wrap_i32 (wrap_u64 (be - 6176)) = be - 6176) by (unfold wrap_i32, wrap_u64; lia).
  rewrite !Ee. clear Ee.
  step_if EXP. { reflexivity. }
  pose proof (nd_range C HC) as Hnd. set (nd := ndigits C) in *.
  set (k := 6176 - be) in *. assert (Hk : 1 <= k) by lia.
  replace (be - 6176) with (- k) by (unfold k; ring). rewrite Z.opp_involutive.
  wrap_ids lia.
  step_if QE. 2:{ step_ifs; reflexivity. }
  assert (Hk34 : 1 <= k <= 34) by lia.
  destruct (rint_row k Hk34) as (RK0 & RK1 & RS & RB & RZ & _). cbv zeta in RS, RB, RZ.
  change (nth (Z.to_nat (k - 1)) T_BID_SHIFTRIGHT128 0) with (rs k).
  assert (F2 : 4 <= k <= 22 -> 0 < rs k < 64) by (intros; destruct (Z.eqb_spec (rs k) 0); destruct (Z.ltb_spec (rs k) 64); lia).
  assert (F3 : 23 <= k -> 64 <= rs k < 128) by (intros; destruct (Z.ltb_spec (rs k) 64); lia).
  clear RB RZ HC Hnd NC Z0 SM C24 B R.
  guard_true lia.
  destruct (i___mul_128x128_to_256 _ _ _ _) as [[[p0 p1] p2] p3]. cbv beta iota.
  ok_walk ltac:(wrap_ids lia; lia).
Qed.

Lemma OK_bid128_nearbyint_2 x0 x1 st : in_u64 x0 -> in_u64 x1 -> in_u32 st -> ok_bid128_nearbyint x0 x1 2 st = true.
Proof.
  intros H0 H1 Hst. unfold ok_bid128_nearbyint. unfold_helpers. cbn [Z.eqb Pos.eqb orb]. red_lets.
  pose proof H0 as H0'. pose proof H1 as H1'. unfold in_u64 in H0', H1'.
  word_norm lia. mask_tests. pose proof (g5W_range x1) as R.
  step_if B. { step_ifs; reflexivity. }
  step_if C24. { step_if Z0; [step_ifs; reflexivity|discriminate Z0]. }
  step_if NC. { step_if Z0; [step_ifs; reflexivity|discriminate Z0]. }
  step_if Z0. { step_ifs; reflexivity. }
  step_if SM. { step_ifs; reflexivity. }
  set (hi := x1 mod 562949953421312) in *.
  assert (Hhi : 0 <= hi < 562949953421312) by (apply Z.mod_pos_bound; reflexivity).
  set (C := hi * 18446744073709551616 + x0).
  assert (HC : 0 < C < 10000000000000000000000000000000000) by (unfold C; lia).
  set (be := (x1 / 562949953421312) mod 16384) in *.
  assert (Hbe : 0 <= be <= 12287) by (unfold be, g5W in *; lia).
  word_norm lia.
  nbits_stage_ok x0 hi C.
  digits_stage_ok x0 hi C.
  assert (Ee : wrap_i32 (wrap_u64 (be - 6176)) = be - 6176) by (unfold wrap_i32, wrap_u64; lia).
  rewrite !Ee. clear Ee.
  step_if EXP. { reflexivity. }
  pose proof (nd_range C HC) as Hnd. set (nd := ndigits C) in *.
  set (k := 6176 - be) in *. assert (Hk : 1 <= k) by lia.
  replace (be - 6176) with (- k) by (unfold k; ring). rewrite Z.opp_involutive.
  wrap_ids lia.
  step_if QE. 2:{ step_ifs; reflexivity. }
  assert (Hk34 : 1 <= k <= 34) by lia.
  destruct (rint_row k Hk34) as (RK0 & RK1 & RS & RB & RZ & _). cbv zeta in RS, RB, RZ.
  change (nth (Z.to_nat (k - 1)) T_BID_SHIFTRIGHT128 0) with (rs k).
  assert (F2 : 4 <= k <= 22 -> 0 < rs k < 64) by (intros; destruct (Z.eqb_spec (rs k) 0); destruct (Z.ltb_spec (rs k) 64); lia).
  assert (F3 : 23 <= k -> 64 <= rs k < 128) by (intros; destruct (Z.ltb_spec (rs k) 64); lia).
  clear RB RZ HC Hnd NC Z0 SM C24 B R.
  guard_true lia.
  destruct (i___mul_128x128_to_256 _ _ _ _) as [[[p0 p1] p2] p3]. cbv beta iota.
  ok_walk ltac:(wrap_ids lia; lia).
Qed.

Lemma OK_bid128_nearbyint_3 x0 x1 st : in_u64 x0 -> in_u64 x1 -> in_u32 st -> ok_bid128_nearbyint x0 x1 3 st = true.
Proof.
  intros H0 H1 Hst. unfold ok_bid128_nearbyint. unfold_helpers. cbn [Z.eqb Pos.eqb orb]. red_lets.
  pose proof H0 as H0'. pose proof H1 as H1'. unfold in_u64 in H0', H1'.
  word_norm lia. mask_tests. pose proof (g5W_range x1) as R.
  step_if B. { step_ifs; reflexivity. }
  step_if C24. { step_if Z0; [reflexivity|discriminate Z0]. }
  step_if NC. { step_if Z0; [reflexivity|discriminate Z0]. }
  step_if Z0. { reflexivity. }
  step_if SM. { reflexivity. }
  set (hi := x1 mod 562949953421312) in *.
  assert (Hhi : 0 <= hi < 562949953421312) by (apply Z.mod_pos_bound; reflexivity).
  set (C := hi * 18446744073709551616 + x0).
  assert (HC : 0 < C < 10000000000000000000000000000000000) by (unfold C; lia).
  set (be := (x1 / 562949953421312) mod 16384) in *.
  assert (Hbe : 0 <= be <= 12287) by (unfold be, g5W in *; lia).
  word_norm lia.
  nbits_stage_ok x0 hi C.
  digits_stage_ok x0 hi C.
  assert (Ee : wrap_i32 (wrap_u64 (be - 6176)) = be - 6176) by (unfold wrap_i32, wrap_u64; lia).
  rewrite !Ee. clear Ee.
  step_if EXP. { reflexivity. }
  pose proof (nd_range C HC) as Hnd. set (nd := ndigits C) in *.
  set (k := 6176 - be) in *. assert (Hk : 1 <= k) by lia.
  replace (be - 6176) with (- k) by (unfold k; ring). rewrite Z.opp_involutive.
  wrap_ids lia.
  step_if QE. 2:{ reflexivity. }
  assert (Hk34 : 1 <= k <= 34) by lia.
  destruct (rint_row k Hk34) as (RK0 & RK1 & RS & RB & RZ & _). cbv zeta in RS, RB, RZ.
  change (nth (Z.to_nat (k - 1)) T_BID_SHIFTRIGHT128 0) with (rs k).
  guard_true lia.
  destruct (i___mul_128x128_to_256 _ _ _ _) as [[[p0 p1] p2] p3]. cbv beta iota.
  step_if K3. { reflexivity. }
  step_if K22.
  { assert (Hs : 0 < rs k < 64) by (destruct (Z.eqb_spec (rs k) 0); destruct (Z.ltb_spec (rs k) 64); lia).
    guard_true lia. wrap_ids lia. guard_true lia. reflexivity. }
  assert (Hs : 64 <= rs k < 128) by (destruct (Z.ltb_spec (rs k) 64); lia).
  wrap_ids lia. guard_true lia. reflexivity.
Qed.

Lemma OK_bid128_nearbyint_4 x0 x1 st : in_u64 x0 -> in_u64 x1 -> in_u32 st -> ok_bid128_nearbyint x0 x1 4 st = true.
Proof.
  intros H0 H1 Hst. unfold ok_bid128_nearbyint. unfold_helpers. cbn [Z.eqb Pos.eqb orb]. red_lets.
  pose proof H0 as H0'. pose proof H1 as H1'. unfold in_u64 in H0', H1'.
  word_norm lia. mask_tests. pose proof (g5W_range x1) as R.
  step_if B. { step_ifs; reflexivity. }
  step_if C24. { step_if Z0; [step_ifs; reflexivity|discriminate Z0]. }
  step_if NC. { step_if Z0; [step_ifs; reflexivity|discriminate Z0]. }
  step_if Z0. { step_ifs; reflexivity. }
  step_if SM. { step_ifs; reflexivity. }
  set (hi := x1 mod 562949953421312) in *.
  assert (Hhi : 0 <= hi < 562949953421312) by (apply Z.mod_pos_bound; reflexivity).
  set (C := hi * 18446744073709551616 + x0).
  assert (HC : 0 < C < 10000000000000000000000000000000000) by (unfold C; lia).
  set (be := (x1 / 562949953421312) mod 16384) in *.
  assert (Hbe : 0 <= be <= 12287) by (unfold be, g5W in *; lia).
  word_norm lia.
  nbits_stage_ok x0 hi C.
  digits_stage_ok x0 hi C.
  assert (Ee : wrap_i32 (wrap_u64 (be - 6176)) = be - 6176) by (unfold wrap_i32, wrap_u64; lia).
  rewrite !Ee. clear Ee.
  step_if EXP. { reflexivity. }
  pose proof (nd_range C HC) as Hnd. set (nd := ndigits C) in *.
  set (k := 6176 - be) in *. assert (Hk : 1 <= k) by lia.
  replace (be - 6176) with (- k) by (unfold k; ring). rewrite Z.opp_involutive.
  wrap_ids lia.
  step_if QE. 2:{ step_ifs; reflexivity. }
  assert (Hk34 : 1 <= k <= 34) by lia.
  destruct (rint_row k Hk34) as (RK0 & RK1 & RS & RB & RZ & _). cbv zeta in RS, RB, RZ.
  change (nth (Z.to_nat (k - 1)) T_BID_SHIFTRIGHT128 0) with (rs k).
  assert (F2 : 4 <= k <= 22 -> 0 < rs k < 64) by (intros; destruct (Z.eqb_spec (rs k) 0); destruct (Z.ltb_spec (rs k) 64); lia).
  assert (F3 : 23 <= k -> 64 <= rs k < 128) by (intros; destruct (Z.ltb_spec (rs k) 64); lia).
  clear RB RZ HC Hnd NC Z0 SM C24 B R.
  replace ((0 <=? k - 1) && (k - 1 <? 34)) with true by lia. cbn [andb]. repeat rewrite if_tt.
  ok_spine ltac:(wrap_ids lia; lia).
Qed.


Theorem I_bid128_nearbyint x0 x1 rnd st : in_u64 x0 -> in_u64 x1 -> 0 <= rnd <= 4 -> in_u32 st ->
  ok_bid128_nearbyint x0 x1 rnd st = true /\
  let '(r0, r1, st') := i_bid128_nearbyint x0 x1 rnd st in
  in_u64 r0 /\ in_u64 r1 /\ exists fl, rint_dec (md_of rnd) false (pat x0 x1) = [([pat r0 r1], fl)] /\ st' = Z.lor st fl.
Proof.
  intros H0 H1 Hrnd Hst.
  assert (CASES : rnd = 0 \/ rnd = 1 \/ rnd = 2 \/ rnd = 3 \/ rnd = 4) by lia.
  destruct CASES as [-> | [-> | [-> | [-> | ->]]]]; cbn [md_of].
  - split; [apply OK_bid128_nearbyint_0|apply (V_bid128_nearbyint_0 x0 x1 st)]; assumption.
  - split; [apply OK_bid128_nearbyint_1|apply (V_bid128_nearbyint_1 x0 x1 st)]; assumption.
  - split; [apply OK_bid128_nearbyint_2|apply (V_bid128_nearbyint_2 x0 x1 st)]; assumption.
  - split; [apply OK_bid128_nearbyint_3|apply (V_bid128_nearbyint_3 x0 x1 st)]; assumption.
  - split; [apply OK_bid128_nearbyint_4|apply (V_bid128_nearbyint_4 x0 x1 st)]; assumption.
Qed.
Print Assumptions I_bid128_nearbyint.
(* END bid128_nearbyint *)
