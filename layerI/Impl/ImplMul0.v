(* Layer I: the basic multi-word helpers of bid_internal.rs (generated code) are exact: 64x64->128 multiplication,
   128+64 addition, 64x128 multiplication (logical path DVI). Used by ImplMul.v (bid128_class, total order) and ImplDpd.v. *)
From Coq Require Import ZArith Lia Bool List ZifyBool.
From DVI Require Import ImplLib ImplGen.
Import ListNotations.
Open Scope Z_scope.

(* ---------- multi-word helpers of bid_internal.rs (generated code): they compute exact products ---------- *)
Ltac Zify.zify_post_hook ::= Z.div_mod_to_equations.
Lemma mul_bound a b A B : 0 <= a <= A -> 0 <= b <= B -> 0 <= a * b <= A * B.
Proof. intros. split; [apply Z.mul_nonneg_nonneg; lia|apply Z.mul_le_mono_nonneg; lia]. Qed.

Lemma S_mul_64x64_to_128 CX CY : in_u64 CX -> in_u64 CY ->
  let '(lo, hi) := i___mul_64x64_to_128 CX CY in
  in_u64 lo /\ in_u64 hi /\ hi * 18446744073709551616 + lo = CX * CY.
Proof.
  unfold in_u64. intros HX HY. unfold i___mul_64x64_to_128, i_d128_new. cbv beta iota zeta.
  rewrite !(shiftr_lit _ 32 4294967296) by (try reflexivity; lia).
  rewrite !(shiftl_lit _ 32 4294967296) by (try reflexivity; lia).
  unfold wrap_u32, wrap_u64.
  set (xh := CX / 4294967296). set (xl := CX mod 4294967296). set (yh := CY / 4294967296). set (yl := CY mod 4294967296).
  assert (Hxh : 0 <= xh <= 4294967295) by (unfold xh; lia). assert (Hxl : 0 <= xl <= 4294967295) by (unfold xl; lia).
  assert (Hyh : 0 <= yh <= 4294967295) by (unfold yh; lia). assert (Hyl : 0 <= yl <= 4294967295) by (unfold yl; lia).
  assert (EX : CX = xh * 4294967296 + xl) by (unfold xh, xl; lia).
  assert (EY : CY = yh * 4294967296 + yl) by (unfold yh, yl; lia).
  assert (EP : CX * CY = (xh * yh) * 18446744073709551616 + (xh * yl + xl * yh) * 4294967296 + xl * yl) by (rewrite EX, EY; ring).
  rewrite EP. clear EP EX EY.
  pose proof (mul_bound xh yl _ _ Hxh Hyl) as B1. pose proof (mul_bound xh yh _ _ Hxh Hyh) as B2.
  pose proof (mul_bound xl yl _ _ Hxl Hyl) as B3. pose proof (mul_bound xl yh _ _ Hxl Hyh) as B4.
  set (a := xh * yl) in *. set (b := xh * yh) in *. set (c := xl * yl) in *. set (d := xl * yh) in *.
  clearbody a b c d xh xl yh yl. cbn in B1, B2, B3, B4.
  lia.
Qed.

Lemma S_add_128_64 a0 a1 b : in_u64 a0 -> in_u64 a1 -> in_u64 b ->
  a1 * 18446744073709551616 + a0 + b < 340282366920938463463374607431768211456 ->
  let '(lo, hi) := i___add_128_64 a0 a1 b in
  in_u64 lo /\ in_u64 hi /\ hi * 18446744073709551616 + lo = a1 * 18446744073709551616 + a0 + b.
Proof.
  unfold in_u64. intros H0 H1 Hb Hs. unfold i___add_128_64, i_d128_Default_default, i_d128_new. cbv beta iota zeta.
  unfold wrap_u64.
  destruct (Z.ltb_spec ((b + a0) mod 18446744073709551616) b); lia.
Qed.

Lemma S_mul_64x128_full A B0 B1 : in_u64 A -> in_u64 B0 -> in_u64 B1 ->
  let '(ph, q0, q1) := i___mul_64x128_full A B0 B1 in
  in_u64 ph /\ in_u64 q0 /\ in_u64 q1 /\
  ph * 340282366920938463463374607431768211456 + q1 * 18446744073709551616 + q0 = A * (B1 * 18446744073709551616 + B0).
Proof.
  intros HA H0 H1. unfold i___mul_64x128_full, i_d128_Default_default, i_d128_new. cbv beta iota zeta.
  pose proof (S_mul_64x64_to_128 A B1 HA H1) as S1. destruct (i___mul_64x64_to_128 A B1) as [h0 h1].
  pose proof (S_mul_64x64_to_128 A B0 HA H0) as S0. destruct (i___mul_64x64_to_128 A B0) as [l0 l1].
  destruct S1 as (R1 & R2 & E1). destruct S0 as (R3 & R4 & E0).
  assert (Bd : A * B1 <= 18446744073709551615 * 18446744073709551615) by (unfold in_u64 in *; apply Z.mul_le_mono_nonneg; lia).
  assert (Hs : h1 * 18446744073709551616 + h0 + l1 < 340282366920938463463374607431768211456) by (unfold in_u64 in *; lia).
  pose proof (S_add_128_64 h0 h1 l1 R1 R2 R4 Hs) as S2. destruct (i___add_128_64 h0 h1 l1) as [m0 m1].
  destruct S2 as (R5 & R6 & E2). unfold in_u64 in *. repeat split; lia.
Qed.

