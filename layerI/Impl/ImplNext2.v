(* Layer I, group NA (bid128_nextafter / bid128_nexttoward): model-side facts over the integers (no real numbers, so that the
   theorems stay closed under the global context) and the leaf lemmas of bid128_nextafter (logical path DVI).
   - the step result compares strictly with the operand (next_up_cmp, next_down_cmp), through cmp_dec_fin of ImplCmp.v;
   - `10^33 * 10^emin > |d|` is is_subnormal_or_zero (sub_cmp); x == y keeps comparing equal after the sign change (eq_setsign);
   - words of an encoded datum: special test, sign replacement (enc_special, enc_setsign);
   - the code's flag computation na_flags equals the model's flag rule (na_flags_ok), and the three leaves (na_eq_leaf,
     na_up_leaf, na_down_leaf). Axiom-free. *)
From Coq Require Import ZArith Lia Bool List ZifyBool.
From Flocq Require Import Core.Zaux Core.Digits.
From DV Require Import Base Bid BidProofs OpsArith OpsCmp OpsMisc ScaleProofs NextProofs.
From DVI Require Import ImplLib ImplGen ImplCommon ImplTables ImplNext ImplMul0 ImplMul ImplOrder ImplCmp ImplCmp2.
Import ListNotations.
Open Scope Z_scope.
Ltac Zify.zify_post_hook ::= Z.div_mod_to_equations.

(* ---------- the +-1 ulp step moves the value strictly ---------- *)
Lemma step_dec_cmp sres add C' e' : 0 < C' < 10 ^ 34 -> 0 <= e' <= 12287 -> (0 < e' -> 10 ^ 33 <= C') ->
  match step_dec sres add C' (e' - 6176) with
  | Inf s2 => add = true /\ s2 = sres
  | Fin s2 c2 q2 => s2 = sres /\ exists e2, q2 = e2 - 6176 /\ 0 <= e2 /\ 0 <= c2 /\
        (if add then C' * 10 ^ e' < c2 * 10 ^ e2 else c2 * 10 ^ e2 < C' * 10 ^ e')
  | NaN _ _ _ => False
  end.
Proof.
  intros HC He HN. unfold step_dec, T34, T33, qmax, qmin.
  change (10 ^ 34) with 10000000000000000000000000000000000 in *. change (10 ^ 33) with 1000000000000000000000000000000000 in *.
  assert (P : 0 < 10 ^ e') by (apply Z.pow_pos_nonneg; lia).
  destruct add.
  - destruct (Z.eqb_spec (C' + 1) 10000000000000000000000000000000000) as [E|E].
    + destruct (6111 <? e' - 6176 + 1); [split; reflexivity|]. split; [reflexivity|]. exists (e' + 1).
      split; [ring|]. split; [lia|]. split; [lia|]. rewrite Z.pow_add_r by lia. change (10 ^ 1) with 10. nia.
    + split; [reflexivity|]. exists e'. split; [reflexivity|]. split; [lia|]. split; [lia|]. nia.
  - destruct (Z.eqb_spec (C' - 1) 0) as [E|E].
    + split; [reflexivity|]. exists 0. split; [reflexivity|]. split; [lia|]. split; [lia|]. nia.
    + destruct ((C' - 1 <? 1000000000000000000000000000000000) && (-6176 <? e' - 6176)) eqn:T.
      * split; [reflexivity|]. exists (e' - 1). split; [ring|]. split; [lia|]. split; [lia|].
        replace e' with (1 + (e' - 1)) at 2 by ring. rewrite Z.pow_add_r by lia. change (10 ^ 1) with 10.
        assert (0 < 10 ^ (e' - 1)) by (apply Z.pow_pos_nonneg; lia). nia.
      * split; [reflexivity|]. exists e'. split; [reflexivity|]. split; [lia|]. split; [lia|]. nia.
Qed.

Lemma cmp_step s add c e C' e' : 0 < c -> 0 <= e -> C' * 10 ^ e' = c * 10 ^ e ->
  0 < C' < 10 ^ 34 -> 0 <= e' <= 12287 -> (0 < e' -> 10 ^ 33 <= C') ->
  cmp_dec (Fin s c (e - 6176)) (step_dec s add C' (e' - 6176)) = if xorb s add then RLt else RGt.
Proof.
  intros Hc He EV HC He' HN. pose proof (step_dec_cmp s add C' e' HC He' HN) as S.
  destruct (step_dec s add C' (e' - 6176)) as [s2 c2 q2|s2|]; [| |contradiction].
  - destruct S as (-> & e2 & -> & He2 & Hc2 & CMP). rewrite cmp_dec_fin by lia.
    replace (c =? 0) with false by lia. rewrite <- EV.
    destruct (Z.eqb_spec c2 0) as [Z|NZ].
    + subst c2. destruct add; [exfalso; nia|]. destruct s; reflexivity.
    + destruct add.
      * assert (Q : (C' * 10 ^ e' ?= c2 * 10 ^ e2) = Lt) by (apply Z.compare_lt_iff; exact CMP). rewrite Q. destruct s; reflexivity.
      * assert (Q : (C' * 10 ^ e' ?= c2 * 10 ^ e2) = Gt) by (apply Z.compare_gt_iff; exact CMP). rewrite Q. destruct s; reflexivity.
  - destruct S as [-> ->]. cbn [cmp_dec]. destruct s; reflexivity.
Qed.

Lemma wf_biased s c q : wf (Fin s c q) -> q = (q + 6176) - 6176 /\ 0 <= q + 6176 <= 12287 /\ 0 <= c < 10 ^ 34.
Proof. unfold wf, T34. change (10 ^ 34) with 10000000000000000000000000000000000. lia. Qed.

Lemma norm_value c e : 0 < c < 10 ^ 34 -> 0 <= e ->
  let k := nu_k (ndigits c) e in (c * 10 ^ k) * 10 ^ (e - k) = c * 10 ^ e.
Proof.
  intros Hc He k. destruct (nu_k_facts c e Hc He) as (K1 & _). fold k in K1.
  rewrite <- Z.mul_assoc, <- Z.pow_add_r by lia. f_equal. f_equal. ring.
Qed.

Lemma next_up_cmp d : wf d -> is_nan d = false -> d <> Inf false -> cmp_dec d (next_up_dec d) = RLt.
Proof.
  intros W N NI. destruct d as [s c q|s|]; [| |discriminate].
  - destruct (wf_biased s c q W) as (Eq & He & Hc). set (e := q + 6176) in *. rewrite Eq.
    destruct (Z.eqb_spec c 0) as [Z|NZ].
    + subst c. cbn [next_up_dec Z.eqb]. change qmin with (0 - 6176). rewrite cmp_dec_fin by lia. reflexivity.
    + rewrite next_up_step by lia. rewrite normalize_k by (unfold qmin; lia). replace (e - 6176 + 6176) with e by ring.
      destruct (nu_k_facts c e ltac:(lia) ltac:(lia)) as (K1 & K2 & K3 & K4). cbv zeta in *.
      replace (e - 6176 - nu_k (ndigits c) e) with (e - nu_k (ndigits c) e - 6176) by ring.
      rewrite (cmp_step s (negb s) c e) by (try lia; apply norm_value; lia). destruct s; reflexivity.
  - destruct s; [reflexivity|congruence].
Qed.

Lemma next_down_cmp d : wf d -> is_nan d = false -> d <> Inf true -> cmp_dec d (next_down_dec d) = RGt.
Proof.
  intros W N NI. destruct d as [s c q|s|]; [| |discriminate].
  - destruct (wf_biased s c q W) as (Eq & He & Hc). set (e := q + 6176) in *. rewrite Eq.
    destruct (Z.eqb_spec c 0) as [Z|NZ].
    + subst c. unfold next_down_dec, neg_dec. cbn [sign_of set_sign next_up_dec Z.eqb negb]. change qmin with (0 - 6176).
      rewrite cmp_dec_fin by lia. reflexivity.
    + rewrite next_down_step by lia. rewrite normalize_k by (unfold qmin; lia). replace (e - 6176 + 6176) with e by ring.
      destruct (nu_k_facts c e ltac:(lia) ltac:(lia)) as (K1 & K2 & K3 & K4). cbv zeta in *.
      replace (e - 6176 - nu_k (ndigits c) e) with (e - nu_k (ndigits c) e - 6176) by ring.
      rewrite (cmp_step s s c e) by (try lia; apply norm_value; lia). destruct s; reflexivity.
  - destruct s; [congruence|reflexivity].
Qed.

(* 10^33 * 10^emin > |d|  <->  d is subnormal or zero *)
Lemma sub_cmp d : wf d -> is_nan d = false ->
  existsb (rel_eqb (cmp_dec (Fin false T33 qmin) (abs_dec d))) (pred_rels 1) = is_subnormal_or_zero d.
Proof.
  intros W N. destruct d as [s c q|s|]; [|reflexivity|discriminate].
  destruct (wf_biased s c q W) as (Eq & He & Hc). set (e := q + 6176) in *. unfold abs_dec. cbn [set_sign is_subnormal_or_zero].
  rewrite Eq. change qmin with (0 - 6176). rewrite cmp_dec_fin by (unfold T33; lia). change (T33 =? 0) with false. cbv iota.
  destruct (Z.eqb_spec c 0) as [Z|NZ]; [reflexivity|]. cbn [orb].
  pose proof (subnormal_iff c e ltac:(lia) ltac:(lia)) as SI. change (10 ^ 0) with 1. rewrite Z.mul_1_r.
  change (10 ^ 33) with T33 in SI.
  destruct (Z.compare_spec T33 (c * 10 ^ e)) as [E|L|G]; cbn [rel_of pred_rels existsb rel_eqb orb]; symmetry.
  - apply Z.ltb_ge. lia.
  - apply Z.ltb_ge. lia.
  - apply Z.ltb_lt. lia.
Qed.

Lemma eq_setsign dx dy : wf dx -> wf dy -> cmp_dec dx dy = REq -> cmp_dec dx (set_sign (sign_of dy) dx) = REq.
Proof.
  intros Wx Wy E. destruct dx as [sx cx qx|sx|]; destruct dy as [sy cy qy|sy|]; try discriminate; cbn [sign_of set_sign].
  - destruct (wf_biased sx cx qx Wx) as (Ex & Hex & Hcx). destruct (wf_biased sy cy qy Wy) as (Ey & Hey & Hcy).
    rewrite Ex, Ey in E. rewrite cmp_dec_fin in E by lia. rewrite Ex. rewrite cmp_dec_fin by lia.
    destruct (cx =? 0); [reflexivity|]. destruct (cy =? 0); [destruct sx; discriminate|]. rewrite Z.compare_refl.
    destruct sx, sy; try discriminate; reflexivity.
  - cbn [cmp_dec] in E. destruct sy; discriminate.
  - cbn [cmp_dec] in E. destruct sx; discriminate.
  - cbn [cmp_dec] in *. destruct sx, sy; try discriminate; reflexivity.
Qed.

(* ---------- words of an encoded datum ---------- *)
Lemma enc_decode d a0 a1 : wf d -> pat a0 a1 = encode d -> decode (pat a0 a1) = d.
Proof. intros W E. rewrite E. apply decode_encode. exact W. Qed.

Lemma enc_special d a0 a1 : wf d -> is_nan d = false -> in_u64 a0 -> in_u64 a1 -> pat a0 a1 = encode d ->
  (30 <=? g5W a1) = is_inf d.
Proof.
  intros W N H0 H1 E. pose proof (enc_decode d a0 a1 W E) as D. rewrite decode_words in D by assumption.
  rewrite decodeW_g5 in D. destruct (g5W a1 =? 31); [subst d; discriminate|].
  destruct (30 <=? g5W a1); subst d; reflexivity.
Qed.

Lemma enc_setsign d (s : bool) a0 a1 : wf d -> is_nan d = false -> in_u64 a0 -> in_u64 a1 -> pat a0 a1 = encode d ->
  in_u64 (a1 mod 9223372036854775808 + (if s then 9223372036854775808 else 0)) /\
  pat a0 (a1 mod 9223372036854775808 + (if s then 9223372036854775808 else 0)) = encode (set_sign s d).
Proof.
  intros W N H0 H1 E. unfold in_u64, pat in *. destruct d as [sd c q|sd|]; [| |discriminate]; cbn [set_sign encode] in *;
  unfold wf, T34, P127, P113, P122 in *; destruct s, sd; lia.
Qed.

Lemma sign_words x0 x1 : in_u64 x0 -> in_u64 x1 -> sign_of (decode (pat x0 x1)) = sgW x1.
Proof.
  intros H0 H1. rewrite decode_words by assumption. rewrite decodeW_g5. unfold sgW.
  destruct (g5W x1 =? 31); [reflexivity|]. destruct (30 <=? g5W x1); reflexivity.
Qed.

(* ---------- the flag computation of the code ---------- *)
Definition na_flags (xfin : bool) (r0 r1 X st : Z) : Z :=
  let pf := if xfin && (30 <=? g5W r1) then Z.lor (Z.lor st 32) 8 else st in
  if fst (cmp_res 1 (pat 4089650035136921600 54210108624275) (pat r0 (r1 mod 9223372036854775808)) pf) &&
     fst (cmp_res 7 X (pat r0 r1) pf)
  then Z.lor (Z.lor pf 32) 16 else pf.

Lemma na_flags_ok dx D X r0 r1 st : wf dx -> is_nan dx = false -> wf D -> is_nan D = false -> decode X = dx ->
  in_u64 r0 -> in_u64 r1 -> pat r0 r1 = encode D ->
  na_flags (is_fin dx) r0 r1 X st =
  Z.lor st (if is_fin dx && is_inf D then 40
            else if is_subnormal_or_zero D && negb (rel_eqb (cmp_dec dx D) REq) then 48 else 0).
Proof.
  intros Wx Nx WD ND EX H0 H1 E. unfold na_flags, cmp_res. cbv zeta. cbn [fst].
  rewrite (enc_special D r0 r1 WD ND H0 H1 E).
  rewrite <- (abs_words r0 r1 H0 H1). rewrite (enc_decode D r0 r1 WD E). rewrite EX.
  change (decode (pat 4089650035136921600 54210108624275)) with (Fin false T33 qmin).
  rewrite (sub_cmp D WD ND).
  assert (NE : existsb (rel_eqb (cmp_dec dx D)) (pred_rels 7) = negb (rel_eqb (cmp_dec dx D) REq)).
  { destruct (cmp_dec dx D); reflexivity. }
  rewrite NE.
  destruct (is_fin dx && is_inf D) eqn:OV.
  - assert (SD : is_subnormal_or_zero D = false) by (destruct D; [destruct (is_fin dx); discriminate|reflexivity|discriminate]).
    rewrite SD. cbn [andb]. rewrite <- Z.lor_assoc. reflexivity.
  - destruct (is_subnormal_or_zero D && negb (rel_eqb (cmp_dec dx D) REq)).
    + rewrite <- Z.lor_assoc. reflexivity.
    + rewrite Z.lor_0_r. reflexivity.
Qed.

(* ---------- leaves of bid128_nextafter for operands without NaN ---------- *)
Lemma na_eq_leaf x0 x1 y0 y1 st a0 a1 r0 r1 st' : in_u64 x0 -> in_u64 x1 -> in_u64 y0 -> in_u64 y1 ->
  is_nan (decode (pat x0 x1)) = false -> is_nan (decode (pat y0 y1)) = false ->
  cmp_dec (decode (pat x0 x1)) (decode (pat y0 y1)) = REq ->
  in_u64 a0 -> in_u64 a1 -> pat a0 a1 = encode (decode (pat x0 x1)) ->
  r0 = a0 -> r1 = a1 mod 9223372036854775808 + sgZ y1 ->
  st' = na_flags (negb (30 <=? g5W a1)) r0 r1 (pat x0 x1) st ->
  next_after_spec x0 x1 y0 y1 st (r0, r1, st').
Proof.
  intros H0 H1 G0 G1 Nx Ny CE A0 A1 EA -> -> ->.
  pose proof (decode_wf _ (pat_range x0 x1 H0 H1)) as Wx. pose proof (decode_wf _ (pat_range y0 y1 G0 G1)) as Wy.
  set (dx := decode (pat x0 x1)) in *. set (dy := decode (pat y0 y1)) in *.
  rewrite (sgZ_sgW y1 G1). rewrite <- (sign_words y0 y1 G0 G1). fold dy.
  destruct (enc_setsign dx (sign_of dy) a0 a1 Wx Nx A0 A1 EA) as (R1 & ER).
  set (D := set_sign (sign_of dy) dx) in *.
  assert (WD : wf D) by (unfold D; destruct dx; exact Wx).
  assert (ND : is_nan D = false) by (unfold D; destruct dx; [reflexivity|reflexivity|discriminate]).
  assert (XF : negb (30 <=? g5W a1) = is_fin dx).
  { rewrite (enc_special dx a0 a1 Wx Nx A0 A1 EA). destruct dx; [reflexivity|reflexivity|discriminate]. }
  rewrite XF. rewrite (na_flags_ok dx D (pat x0 x1) a0 _ st Wx Nx WD ND eq_refl A0 R1 ER).
  pose proof (eq_setsign dx dy Wx Wy CE) as CD. fold D in CD. rewrite CD. cbn [rel_eqb negb]. rewrite andb_false_r.
  assert (OV : is_fin dx && is_inf D = false) by (unfold D; destruct dx; reflexivity). rewrite OV.
  unfold next_after_spec. split; [exact A0|]. split; [exact R1|]. exists 0. split; [|reflexivity].
  unfold m_next_after. fold dx dy. rewrite Nx, Ny. cbn [orb]. rewrite CE. unfold out1. rewrite ER. left. reflexivity.
Qed.

Lemma na_step_leaf (up : bool) x0 x1 y0 y1 st a0 a1 r0 r1 st2 st' : in_u64 x0 -> in_u64 x1 -> in_u64 y0 -> in_u64 y1 ->
  is_nan (decode (pat x0 x1)) = false -> is_nan (decode (pat y0 y1)) = false ->
  cmp_dec (decode (pat x0 x1)) (decode (pat y0 y1)) = (if up then RLt else RGt) ->
  (if up then next_up_spec x0 x1 st (r0, r1, st2) else next_down_spec x0 x1 st (r0, r1, st2)) ->
  in_u64 a0 -> in_u64 a1 -> pat a0 a1 = encode (decode (pat x0 x1)) ->
  st' = na_flags (negb (30 <=? g5W a1)) r0 r1 (pat x0 x1) st2 ->
  next_after_spec x0 x1 y0 y1 st (r0, r1, st').
Proof.
  intros H0 H1 G0 G1 Nx Ny CE SP A0 A1 EA ->.
  pose proof (decode_wf _ (pat_range x0 x1 H0 H1)) as Wx.
  set (dx := decode (pat x0 x1)) in *. set (dy := decode (pat y0 y1)) in *.
  set (D := if up then next_up_dec dx else next_down_dec dx).
  assert (SPF : in_u64 r0 /\ in_u64 r1 /\ pat r0 r1 = encode D /\ st2 = st).
  { destruct up; [unfold next_up_spec, m_next_up in SP|unfold next_down_spec, m_next_down in SP]; fold dx in SP; rewrite Nx in SP;
    destruct SP as (R0 & R1 & fl & M & S); unfold out1 in M; injection M as M1 M2; subst fl; rewrite Z.lor_0_r in S;
    (split; [exact R0|]; split; [exact R1|]; split; [symmetry; exact M1|exact S]). }
  destruct SPF as (R0 & R1 & ER & ->).
  assert (WD : wf D /\ is_nan D = false) by (unfold D; destruct up; [apply next_up_wf|apply next_down_wf]; assumption).
  destruct WD as [WD ND].
  assert (CD : cmp_dec dx D = if up then RLt else RGt).
  { unfold D. destruct up; [apply next_up_cmp|apply next_down_cmp]; try assumption; intros ->; destruct dy as [sy cy qy|sy|]; try discriminate;
    cbn [cmp_dec] in CE; try discriminate; destruct sy; discriminate. }
  assert (XF : negb (30 <=? g5W a1) = is_fin dx).
  { rewrite (enc_special dx a0 a1 Wx Nx A0 A1 EA). destruct dx; [reflexivity|reflexivity|discriminate]. }
  rewrite XF. rewrite (na_flags_ok dx D (pat x0 x1) r0 r1 st Wx Nx WD ND eq_refl R0 R1 ER).
  assert (NE : negb (rel_eqb (cmp_dec dx D) REq) = true) by (rewrite CD; destruct up; reflexivity). rewrite NE, andb_true_r.
  unfold next_after_spec. split; [exact R0|]. split; [exact R1|]. eexists. split; [|reflexivity].
  unfold m_next_after. fold dx dy. rewrite Nx, Ny. cbn [orb]. rewrite CE. rewrite ER.
  destruct up; unfold out1, F_OVF, F_INX, F_UNF; fold D; left; reflexivity.
Qed.

(* ---------- small facts for the walk ---------- *)
Lemma cmp_not_un dx dy : is_nan dx = false -> is_nan dy = false -> cmp_dec dx dy <> RUn.
Proof. exact (cmp_dec_not_un dx dy). Qed.

Lemma cmp_inv_nn i dx dy : is_nan dx = false -> is_nan dy = false -> cmp_inv i dx dy = false.
Proof. intros Nx Ny. unfold cmp_inv. destruct dx, dy; try discriminate; destruct (pred_signaling i); reflexivity. Qed.

Lemma step_spec_nn (up : bool) x0 x1 st r0 r1 st2 : is_nan (decode (pat x0 x1)) = false ->
  (if up then next_up_spec x0 x1 st (r0, r1, st2) else next_down_spec x0 x1 st (r0, r1, st2)) ->
  in_u64 r0 /\ in_u64 r1 /\ st2 = st.
Proof.
  intros Nx SP. destruct up; [unfold next_up_spec, m_next_up in SP|unfold next_down_spec, m_next_down in SP]; rewrite Nx in SP;
  destruct SP as (R0 & R1 & fl & M & S); unfold out1 in M; injection M as M1 M2; subst fl; rewrite Z.lor_0_r in S;
  (split; [exact R0|]; split; [exact R1|exact S]).
Qed.

Lemma in_u32_lor a b : in_u32 a -> in_u32 b -> in_u32 (Z.lor a b).
Proof.
  unfold in_u32. intros Ha Hb. split; [apply Z.lor_nonneg; lia|].
  destruct (Z.eq_dec (Z.lor a b) 0) as [E|N]; [rewrite E; reflexivity|].
  assert (P : 0 < Z.lor a b) by (pose proof (proj2 (Z.lor_nonneg a b) (conj (proj1 Ha) (proj1 Hb))); lia).
  change 4294967296 with (2 ^ 32). apply Z.log2_lt_pow2; [exact P|]. rewrite Z.log2_lor by lia.
  assert (La : Z.log2 a < 32) by (destruct (Z.eq_dec a 0) as [->|]; [reflexivity|apply Z.log2_lt_pow2; [lia|]; change (2 ^ 32) with 4294967296; lia]).
  assert (Lb : Z.log2 b < 32) by (destruct (Z.eq_dec b 0) as [->|]; [reflexivity|apply Z.log2_lt_pow2; [lia|]; change (2 ^ 32) with 4294967296; lia]).
  lia.
Qed.
Ltac u32_tac :=
  repeat first [ assumption | apply in_u32_lor | (unfold in_u32; lia)
               | match goal with |- in_u32 (if ?c then _ else _) => destruct c end ].

Lemma in_u64_lor a b : in_u64 a -> in_u64 b -> in_u64 (Z.lor a b).
Proof.
  unfold in_u64. intros Ha Hb. split; [apply Z.lor_nonneg; lia|].
  destruct (Z.eq_dec (Z.lor a b) 0) as [E|N]; [rewrite E; reflexivity|].
  assert (P : 0 < Z.lor a b) by (pose proof (proj2 (Z.lor_nonneg a b) (conj (proj1 Ha) (proj1 Hb))); lia).
  change 18446744073709551616 with (2 ^ 64). apply Z.log2_lt_pow2; [exact P|]. rewrite Z.log2_lor by lia.
  assert (La : Z.log2 a < 64) by (destruct (Z.eq_dec a 0) as [->|]; [reflexivity|apply Z.log2_lt_pow2; [lia|]; change (2 ^ 64) with 18446744073709551616; lia]).
  assert (Lb : Z.log2 b < 64) by (destruct (Z.eq_dec b 0) as [->|]; [reflexivity|apply Z.log2_lt_pow2; [lia|]; change (2 ^ 64) with 18446744073709551616; lia]).
  lia.
Qed.
Ltac u64_tac :=
  repeat first [ assumption | apply in_u64_lor | (unfold in_u64 in *; lia)
               | match goal with |- in_u64 (if ?c then _ else _) => destruct c end ].

(* ranges of the words and of the status word returned by bid128_nextup / bid128_nextdown, for every operand *)
Lemma step_spec_ranges (up : bool) x0 x1 st r0 r1 st2 : in_u32 st ->
  (if up then next_up_spec x0 x1 st (r0, r1, st2) else next_down_spec x0 x1 st (r0, r1, st2)) ->
  in_u64 r0 /\ in_u64 r1 /\ in_u32 st2.
Proof.
  intros Hst SP.
  assert (G : forall l fl, (l = nan_outcomes [decode (pat x0 x1)] \/ exists d, l = out1 d 0) -> l = [([pat r0 r1], fl)] -> in_u32 fl).
  { intros l fl [->|[d ->]] E.
    - unfold nan_outcomes in E. cbn [filter existsb] in E. destruct (is_nan (decode (pat x0 x1))); [|discriminate].
      cbn [map] in E. injection E as _ E. subst fl. destruct (is_snan _ || false); unfold in_u32, F_INV; lia.
    - unfold out1 in E. injection E as _ E. subst fl. unfold in_u32. lia. }
  destruct up; [unfold next_up_spec, m_next_up in SP|unfold next_down_spec, m_next_down in SP];
  destruct SP as (R0 & R1 & fl & M & ->); (split; [exact R0|]; split; [exact R1|]; apply in_u32_lor; [exact Hst|]);
  (eapply G; [|exact M]); destruct (is_nan (decode (pat x0 x1))); [left; reflexivity|right; eexists; reflexivity|left; reflexivity|right; eexists; reflexivity].
Qed.

Print Assumptions na_eq_leaf.
Print Assumptions na_step_leaf.
