(* Layer I: the generated table BID_D2B (1024 rows, from bid_b2d.rs) is the declet decoding of IEEE 754-2008 table 3.3
   for all 1024 patterns (declet_dec of OpsConv.v): every row checked by kernel computation (logical path DVI). *)
From Coq Require Import ZArith Lia Bool List.
From DV Require Import Base Bid BidProofs OpsArith OpsCmp OpsMisc OpsConv DpdProofs.
From DVI Require Import ImplLib ImplGen.
Import ListNotations.
Open Scope Z_scope.

Lemma d2b_all : forallb (fun i => nth (Z.to_nat i) T_BID_D2B 0 =? declet_dec i) (zrange 1024) = true.
Proof. vm_compute. reflexivity. Qed.
Lemma d2b_length : length T_BID_D2B = 1024%nat.
Proof. vm_compute. reflexivity. Qed.
Lemma d2b_row i : 0 <= i < 1024 -> nth (Z.to_nat i) T_BID_D2B 0 = declet_dec i.
Proof. intros H. apply Z.eqb_eq. exact (sweep _ 1024 d2b_all i H). Qed.
