(* Layer I, group F: facts about the model's rounding-and-packing function rp at a preferred exponent equal to the
   working exponent (the way scale_fin uses it), in closed form.  Only definitions of the model are unfolded. *)
From Coq Require Import ZArith Reals Lia Bool List.
From Flocq Require Import Core.Core Calc.Bracket Calc.Round.
From DV Require Import Base Bid BidProofs Arith OpsArith OpsCmp OpsMisc ScaleProofs.
Import ListNotations.
Open Scope Z_scope.

Lemma rp_zero md s e zs : rp md s 0 e loc_Exact e zs = (Fin zs 0 (clampq e), mkfl false false false).
Proof. unfold rp, shortcut. cbn [Z.eqb is_exact andb negb]. rewrite andb_false_r. reflexivity. Qed.

Lemma new_location_pow10 k r : 0 < k -> 0 <= r -> new_location (10 ^ k) r loc_Exact = loc_of_rem r (10 ^ k).
Proof.
  intros Hk Hr. unfold new_location.
  assert (Ev : Z.even (10 ^ k) = true).
  { replace k with (Z.succ (k - 1)) by lia. rewrite Z.pow_succ_r by lia. rewrite Z.even_mul. reflexivity. }
  rewrite Ev. unfold new_location_even, loc_of_rem.
  replace (Zeq_bool r 0) with (r =? 0) by (clear; destruct r; reflexivity).
  destruct (Z.eqb_spec r 0); [reflexivity|]. destruct (2 * r ?= 10 ^ k); reflexivity.
Qed.

Lemma digits_pow c : 0 < c -> 10 ^ (Zdigits radix10 c - 1) <= c < 10 ^ Zdigits radix10 c.
Proof. intros Hc. pose proof (Zdigits_correct radix10 c) as H. rewrite Z.abs_eq in H by lia. exact H. Qed.

(* below the exponent range: the coefficient is divided by 10^k and rounded once; underflow is raised with inexact *)
Lemma rp_underflow md s c e zs : 0 < c < 10 ^ 34 -> e < qmin ->
  let k := qmin - e in
  let inx := negb (c mod 10 ^ k =? 0) in
  rp md s c e loc_Exact e zs =
    (Fin s (choice md s (c / 10 ^ k) (loc_of_rem (c mod 10 ^ k) (10 ^ k))) qmin, mkfl inx inx false).
Proof.
  intros Hc He k inx. pose proof (digits34 c Hc) as Hd. pose proof (digits_pow c (proj1 Hc)) as Hp.
  assert (Hk : 0 < k) by (unfold k; lia). assert (Hpk : 0 < 10 ^ k) by (apply Z.pow_pos_nonneg; lia).
  unfold rp. destruct (Z.leb_spec (Zdigits radix10 c + e) (-6177)) as [Hs|Hs].
  - rewrite shortcut_on by lia. rewrite (round_pack_tiny md s e 0 zs false).
    assert (Hlt : 10 * c <= 10 ^ k).
    { replace k with (Z.succ (k - 1)) by lia. rewrite Z.pow_succ_r by lia.
      assert (10 ^ Zdigits radix10 c <= 10 ^ (k - 1)) by (apply Z.pow_le_mono_r; unfold k, qmin; lia). lia. }
    assert (Eq : c / 10 ^ k = 0) by (apply Z.div_small; lia).
    assert (Er : c mod 10 ^ k = c) by (apply Z.mod_small; lia).
    unfold inx. rewrite Eq, Er. unfold loc_of_rem. destruct (Z.eqb_spec c 0) as [?|_]; [lia|].
    replace (2 * c ?= 10 ^ k) with Lt by (symmetry; apply Z.compare_lt_iff; lia).
    destruct md, s; vm_compute; reflexivity.
  - rewrite shortcut_off by lia. unfold round_pack.
    destruct (Z.eqb_spec c 0) as [?|_]; [lia|]. cbn [andb is_exact].
    set (dg := Zdigits radix10 c) in *.
    assert (Hce : fexp (dg + e) = -6176) by (rewrite fexp_eq; unfold qmin in He; lia).
    rewrite Hce. replace (-6176 <? e) with false by (symmetry; apply Z.ltb_ge; unfold qmin in He; lia).
    unfold truncate. fold dg. rewrite Hce. fold qmin. fold k.
    replace (Zlt_bool 0 k) with true by (symmetry; apply Z.ltb_lt; exact Hk).
    unfold truncate_aux. change (Zpower radix10 k) with (10 ^ k).
    rewrite new_location_pow10 by (try lia; apply Z.mod_pos_bound; lia).
    replace (e + k) with qmin by (unfold k; lia).
    set (q := c / 10 ^ k). set (r := c mod 10 ^ k). set (l := loc_of_rem r (10 ^ k)).
    assert (Hq : 0 <= q < 10 ^ 33).
    { unfold q. split; [apply Z.div_pos; lia|]. apply Z.div_lt_upper_bound; [lia|].
      assert (10 ^ 34 <= 10 ^ k * 10 ^ 33); [|lia].
      replace k with (Z.succ (k - 1)) by lia. rewrite Z.pow_succ_r by lia.
      assert (1 <= 10 ^ (k - 1)) by (apply (Z.pow_le_mono_r 10 0); lia). change (10 ^ 34) with (10 * 10 ^ 33). nia. }
    assert (Hch : choice md s q l <= q + 1).
    { unfold choice, cond_incr. destruct md; repeat match goal with |- context [if ?b then _ else _] => destruct b end; lia. }
    assert (Hch0 : q <= choice md s q l).
    { unfold choice, cond_incr. destruct md; repeat match goal with |- context [if ?b then _ else _] => destruct b end; lia. }
    destruct (Z.eqb_spec (choice md s q l) (10 ^ 34)) as [E|_]; [change (10 ^ 34) with (10 * 10 ^ 33) in E; lia|].
    replace (qmin >? qmax) with false by reflexivity.
    replace (dg + e <=? -6143) with true by (symmetry; apply Z.leb_le; unfold qmin in He; lia).
    assert (El : is_exact l = (r =? 0)) by (unfold l, loc_of_rem; destruct (r =? 0); reflexivity).
    rewrite El. rewrite andb_true_r. unfold inx. fold r.
    destruct (r =? 0); cbn [negb]; [|reflexivity].
    cbn [strip]. replace (qmin <? e) with false by (symmetry; apply Z.ltb_ge; lia). reflexivity.
Qed.

Lemma wf_fin s c q : 0 <= c < 10 ^ 34 -> qmin <= q <= qmax -> wf (Fin s c q).
Proof. intros Hc Hq. unfold wf, qmin, qmax in *. cbn. change T34 with (10 ^ 34). lia. Qed.

(* zero padding is stripped back up to the preferred exponent, or to the largest exponent *)
Lemma strip_pad f : forall n c q pref, 0 <= n <= Z.of_nat f -> q + n = Z.min pref qmax ->
  strip f (c * 10 ^ n) q pref = (c, q + n).
Proof.
  induction f as [|f IH]; intros n c q pref Hn Hq.
  - assert (n = 0) by lia. subst n. cbn [strip]. change (10 ^ 0) with 1. rewrite Z.mul_1_r, Z.add_0_r. reflexivity.
  - cbn [strip]. destruct (Z.eq_dec n 0) as [->|Nn].
    + change (10 ^ 0) with 1. rewrite Z.mul_1_r, Z.add_0_r in *.
      replace ((q <? pref) && (c mod 10 =? 0) && (q <? qmax)) with false; [reflexivity|].
      symmetry. destruct (Z.ltb_spec q pref); [|reflexivity]. destruct (Z.ltb_spec q qmax); [lia|]. apply andb_false_r.
    + replace (q <? pref) with true by (symmetry; apply Z.ltb_lt; lia).
      replace (q <? qmax) with true by (symmetry; apply Z.ltb_lt; lia).
      assert (E : c * 10 ^ n = c * 10 ^ (n - 1) * 10).
      { replace n with (Z.succ (n - 1)) at 1 by lia. rewrite Z.pow_succ_r by lia. ring. }
      rewrite E, Z.mod_mul, Z.div_mul by lia. cbn [Z.eqb andb].
      rewrite IH by lia. f_equal. lia.
Qed.

Lemma choice_exact md s c : choice md s c loc_Exact = c.
Proof. destruct md, s; reflexivity. Qed.

(* at or above the smallest exponent nothing is rounded: the datum is exact, padded with zeros down to the largest
   exponent if necessary, or the coefficient cannot absorb the excess and the result overflows *)
Lemma rp_cases md s c e : 0 < c < 10 ^ 34 ->
  let r := rp md s c e loc_Exact e s in
  (qmin <= e <= qmax -> encode (fst r) = encode (Fin s c e) /\ flbits (snd r) = 0) /\
  (qmax < e -> c * 10 ^ (e - qmax) < 10 ^ 34 ->
     encode (fst r) = encode (Fin s (c * 10 ^ (e - qmax)) qmax) /\ flbits (snd r) = 0) /\
  (qmax < e -> 10 ^ 34 <= c * 10 ^ (e - qmax) ->
     encode (fst r) = encode (overflow_result md s) /\ flbits (snd r) = F_OVF + F_INX).
Proof.
  intros Hc r. pose proof (digits34 c Hc) as Hd. pose proof (digits_pow c (proj1 Hc)) as Hp.
  set (dg := Zdigits radix10 c) in *.
  assert (GEN : qmin <= e ->
    r = if dg + e - 34 >? qmax then (overflow_result md s, mkfl true false true)
        else (Fin s (c * 10 ^ (e - Z.min e qmax)) (Z.min e qmax), mkfl false false false)).
  { intros He. unfold r, rp. rewrite shortcut_off by (fold dg; unfold qmin in He; lia). unfold round_pack.
    destruct (Z.eqb_spec c 0) as [?|_]; [lia|]. cbn [andb is_exact]. fold dg.
    set (ce := fexp (dg + e)). assert (Hce : ce = Z.max (dg + e - 34) (-6176)) by (unfold ce; apply fexp_eq).
    set (m := e - ce). assert (Hm : 0 <= m) by (unfold m, qmin in *; lia).
    assert (Et0 : (if ce <? e then (c * 10 ^ m, ce, loc_Exact) else (c, e, loc_Exact)) = (c * 10 ^ m, ce, loc_Exact)).
    { destruct (Z.ltb_spec ce e); [reflexivity|]. assert (m = 0) by (unfold m, qmin in *; lia).
      replace ce with e by (unfold m in *; lia). rewrite H0. change (10 ^ 0) with 1. rewrite Z.mul_1_r. reflexivity. }
    rewrite Et0. unfold truncate.
    assert (Edg : Zdigits radix10 (c * 10 ^ m) = dg + m).
    { change (10 ^ m) with (Zpower radix10 m). rewrite Zdigits_mult_Zpower by lia. reflexivity. }
    rewrite Edg. replace (dg + m + ce) with (dg + e) by (unfold m; ring). fold ce. rewrite Z.sub_diag. cbn [Zlt_bool Z.compare].
    rewrite choice_exact.
    assert (Hlt : c * 10 ^ m < 10 ^ 34).
    { assert (10 ^ (dg + m) <= 10 ^ 34) by (apply Z.pow_le_mono_r; unfold m; lia).
      rewrite Z.pow_add_r in H by lia. assert (0 < 10 ^ m) by (apply Z.pow_pos_nonneg; lia). nia. }
    destruct (Z.eqb_spec (c * 10 ^ m) (10 ^ 34)) as [?|_]; [lia|]. cbn [is_exact negb andb].
    assert (Eov : (ce >? qmax) = (dg + e - 34 >? qmax)).
    { destruct (Z.gtb_spec ce qmax), (Z.gtb_spec (dg + e - 34) qmax); try reflexivity; unfold qmax in *; lia. }
    rewrite Eov. destruct (Z.gtb_spec (dg + e - 34) qmax) as [Hov|Hno]; [reflexivity|].
    set (n := Z.min e qmax - ce). assert (Hn : 0 <= n <= m) by (unfold n, m, qmax, qmin in *; lia).
    replace (c * 10 ^ m) with (c * 10 ^ (e - Z.min e qmax) * 10 ^ n).
    2:{ rewrite <- Z.mul_assoc, <- Z.pow_add_r by (unfold n, m in *; lia). do 2 f_equal. unfold n, m. ring. }
    rewrite (strip_pad 40 n) by (try (change (Z.of_nat 40) with 40; unfold n, m, qmax, qmin in *; lia); unfold n; lia).
    replace (ce + n) with (Z.min e qmax) by (unfold n; ring). reflexivity. }
  assert (P34 : 10 ^ 34 = 10 * 10 ^ 33) by reflexivity.
  split; [|split].
  - intros He. rewrite (GEN (proj1 He)).
    destruct (Z.gtb_spec (dg + e - 34) qmax); [unfold qmax in *; lia|]. cbn [fst snd].
    rewrite Z.min_l by lia. rewrite Z.sub_diag. change (10 ^ 0) with 1. rewrite Z.mul_1_r. split; reflexivity.
  - intros He Hs. rewrite (GEN ltac:(unfold qmin, qmax in *; lia)).
    destruct (Z.gtb_spec (dg + e - 34) qmax) as [Hov|_].
    + exfalso. assert (10 ^ (dg - 1 + (e - qmax)) < 10 ^ 34).
      { rewrite Z.pow_add_r by lia. assert (0 < 10 ^ (e - qmax)) by (apply Z.pow_pos_nonneg; lia). nia. }
      apply Z.pow_lt_mono_r_iff in H; lia.
    + cbn [fst snd]. rewrite Z.min_r by lia. split; reflexivity.
  - intros He Hb. rewrite (GEN ltac:(unfold qmin, qmax in *; lia)).
    destruct (Z.gtb_spec (dg + e - 34) qmax) as [_|Hno]; [split; reflexivity|].
    exfalso. assert (10 ^ 34 < 10 ^ (dg + (e - qmax))).
    { rewrite Z.pow_add_r by lia. assert (0 < 10 ^ (e - qmax)) by (apply Z.pow_pos_nonneg; lia). nia. }
    apply Z.pow_lt_mono_r_iff in H; lia.
Qed.

Lemma choice_bounds md s q l : q <= choice md s q l <= q + 1.
Proof. unfold choice, cond_incr. destruct md; repeat match goal with |- context [if ?b then _ else _] => destruct b end; lia. Qed.

(* the packed result always is a 128-bit pattern *)
Lemma rp_encode_range md s c e : 0 <= c < 10 ^ 34 -> 0 <= encode (fst (rp md s c e loc_Exact e s)) < P128.
Proof.
  intros Hc. destruct (Z.eq_dec c 0) as [->|Nc].
  - rewrite rp_zero. cbn [fst]. apply encode_range, wf_fin; [lia|unfold clampq, qmin, qmax; lia].
  - assert (Hc' : 0 < c < 10 ^ 34) by lia.
    destruct (Z_lt_le_dec e qmin) as [Hlo|Hlo].
    + pose proof (rp_underflow md s c e s Hc' Hlo) as RU. cbv zeta in RU. rewrite RU. cbn [fst].
      set (k := qmin - e) in *. assert (Hk : 0 < k) by (unfold k; lia).
      assert (Hq : 0 <= c / 10 ^ k < 10 ^ 33).
      { assert (0 < 10 ^ k) by (apply Z.pow_pos_nonneg; lia). split; [apply Z.div_pos; lia|].
        apply Z.div_lt_upper_bound; [lia|]. assert (10 ^ 1 <= 10 ^ k) by (apply Z.pow_le_mono_r; lia).
        change (10 ^ 1) with 10 in *. change (10 ^ 34) with (10 * 10 ^ 33) in Hc'. nia. }
      pose proof (choice_bounds md s (c / 10 ^ k) (loc_of_rem (c mod 10 ^ k) (10 ^ k))) as CB.
      apply encode_range, wf_fin; [change (10 ^ 34) with (10 * 10 ^ 33); lia|unfold qmin, qmax; lia].
    + destruct (rp_cases md s c e Hc') as (A & B & C).
      destruct (Z_le_gt_dec e qmax) as [Hhi|Hhi].
      * destruct (A ltac:(lia)) as [-> _]. apply encode_range, wf_fin; lia.
      * destruct (Z_lt_le_dec (c * 10 ^ (e - qmax)) (10 ^ 34)) as [Hs|Hs].
        -- destruct (B ltac:(lia) Hs) as [-> _]. apply encode_range, wf_fin; [|unfold qmin, qmax; lia].
           assert (0 < 10 ^ (e - qmax)) by (apply Z.pow_pos_nonneg; lia). nia.
        -- destruct (C ltac:(lia) Hs) as [-> _]. destruct md, s; vm_compute; split; congruence.
Qed.
