#!/usr/bin/env python3
"""selftest_wrap.py -- mutation self-test of layer-I groups W (lrint/llrint/lround/llround) and X (fdim): each mutant of a scratch
copy of /repo/src (under /tmp/st, removed afterwards) must make the theorem block of the routine fail; the last two runs check that a
true swap of two callees fails and that a harmless reordering of match arms still checks.  Result recorded in SELFTEST.md.
Development-time tool, not part of any check."""
import os, re, shutil, subprocess, sys
os.makedirs('/tmp/st', exist_ok=True)
sys.path.insert(0, '/verif/layerI')
MUT = [
 ('bid128_lrint.rs', 'NearestEven => bid128_to_int64_xrnint', 'NearestEven => bid128_to_int64_xrninta', 'W', 'bid128_lrint'),
 ('bid128_lrint.rs', 'Downward    => bid128_to_int64_xfloor', 'Downward    => bid128_to_int64_xceil', 'W', 'bid128_lrint'),
 ('bid128_lrint.rs', 'Upward      => bid128_to_int64_xceil', 'Upward      => bid128_to_int64_ceil', 'W', 'bid128_lrint'),
 ('bid128_lrint.rs', '_                         => bid128_to_int64_xint', '_                         => bid128_to_int64_xfloor', 'W', 'bid128_lrint'),
 ('bid128_llrint.rs', 'RoundingMode::Downward ', 'RoundingMode::TowardZero ', 'W', 'bid128_llrint'),
 ('bid128_llrint.rs', 'NearestAway => bid128_to_int64_xrninta', 'NearestAway => bid128_to_int64_rninta', 'W', 'bid128_llrint'),
 ('bid128_lround.rs', 'bid128_to_int64_rninta(x, pfpsf)', 'bid128_to_int64_rnint(x, pfpsf)', 'W', 'bid128_lround'),
 ('bid128_llround.rs', 'bid128_to_int64_rninta(x, pfpsf)', 'bid128_to_int64_xrninta(x, pfpsf)', 'W', 'bid128_llround'),
 ('bid128_fdim.rs', '&& !cmpres', '&& cmpres', 'X', 'bid128_fdim'),
 ('bid128_fdim.rs', 'bid128_sub(x, y, rnd_mode, pfpsf)', 'bid128_sub(y, x, rnd_mode, pfpsf)', 'X', 'bid128_fdim'),
 ('bid128_fdim.rs', '0x3040000000000000u64, 0x0000000000000000u64', '0x3040000000000000u64, 0x0000000000000001u64', 'X', 'bid128_fdim'),
 ('bid128_fdim.rs', 'bid128_quiet_greater(x, y, pfpsf)', 'bid128_quiet_greater(y, x, pfpsf)', 'X', 'bid128_fdim'),
]
import layerI
for i, (f, a, b, g, fn) in enumerate(MUT):
    src = '/tmp/st/src'
    shutil.rmtree(src, ignore_errors=True); shutil.copytree('/repo/src', src)
    t = open(os.path.join(src, f)).read()
    if a not in t:
        print('%2d %-18s PATTERN NOT FOUND: %s' % (i, f, a)); continue
    t2 = t.replace(a, b, 1)
    # keep it compiling: make sure any new callee is imported
    for name in re.findall(r'bid128_to_int64_\w+', b):
        if name not in t:
            t2 = t2.replace('use crate::d128::', 'use crate::bid128_to_int64::%s;\nuse crate::d128::' % name, 1)
    open(os.path.join(src, f), 'w').write(t2)
    res = layerI.check_layerI('/tmp/st/scr', src, g, 8)
    st = {n: ok for n, ok, _ in res}
    det = [d for n, ok, d in res if n == fn][0]
    print('%2d %-18s %-60s -> %-60s : %s (%s)' % (i, f, a[:60], b[:60], 'CAUGHT' if not st[fn] else 'not caught', ' '.join(det.split())[:110]))

def run(label, edit, expect_ok):
    src = '/tmp/st/src'
    shutil.rmtree(src, ignore_errors=True); shutil.copytree('/repo/src', src)
    p = os.path.join(src, 'bid128_lrint.rs'); t = open(p).read(); t2 = edit(t); assert t2 != t
    open(p, 'w').write(t2)
    res = layerI.check_layerI('/tmp/st/scr', src, 'W', 8)
    ok = [o for n, o, _ in res if n == 'bid128_lrint'][0]
    print('%-70s : theorem %s -> %s' % (label, 'checks' if ok else 'FAILS', 'as expected' if ok == expect_ok else 'UNEXPECTED'))
A = '        RoundingMode::Downward    => bid128_to_int64_xfloor(x, pfpsf),\n'
B = '        RoundingMode::Upward      => bid128_to_int64_xceil(x, pfpsf),\n'
run('swap the callees of Downward and Upward (both names still used)',
    lambda t: t.replace('Downward    => bid128_to_int64_xfloor', 'Downward    => bid128_to_int64_xceil').replace('Upward      => bid128_to_int64_xceil', 'Upward      => bid128_to_int64_xfloor'), False)
run('harmless: reorder the Downward and Upward arms (same behaviour)', lambda t: t.replace(A + B, B + A), True)
shutil.rmtree('/tmp/st/src', ignore_errors=True); shutil.rmtree('/tmp/st/scr', ignore_errors=True)
